//go:build verif

package centrifuge

// Verification harness for C04 / C05 / C07 (injected with `go test -overlay`, never part of the repo).
//
// One op line = one scenario:  `sched <json>`  with
//   {"actors":[{"id":"A","kind":"csub|ssub|cunsub|sunsub|close","ch":"a","p":0|1,"j":0|1,
//               "fail":""|"onsub"|"onsubdisc"|"bsub"|"presadd"}, ...],
//    "chans":["a","b"], "sched":[<int>|"T"|"H"|"R", ...]}
//
// A real Node + real Client are driven by actor goroutines.  Every external call the connection
// makes (OnSubscribe / OnUnsubscribe / OnDisconnect handlers, PresenceManager add/remove,
// Broker.PublishJoin / PublishLeave, reply writer, Transport.Close, Transport.DisabledPushFlags
// from close() and Client.Subscribe, the "timeout waiting" log line) is a gate: the calling
// goroutine parks until the scheduler releases it.  The scheduler releases one goroutine at a
// time and waits for quiescence (every tracked goroutine parked at a gate, blocked, or finished;
// established from a runtime.Stack snapshot).  Schedule entries: an integer i = release the
// (i mod n)-th releasable actor; "T" = let real time pass until something moves (the 5 s
// unsubscribe wait-gate timeout); "H" = hold c.connectMu (delays any close() at its entry, which
// is how a not-yet-scheduled `go c.close()` is represented); "R" = release it.
//
// Output (one line per scenario): `<ev>;<ev>;...` where events are
//   spawn <A> <kind> <ch> <p><j> | arrive <A> <tag> <ch> | pass <A> <tag> <ch> <ok|fail> |
//   ev <A> bsub <ch> <ok|fail> | done <A> <ok|err|PANIC> | anon <X> | hold | unhold |
//   obs <abstract state> | final <abstract state> recv=<ch>:<n>,... extra=<...>
// or `HARNESS-ERROR <why>` (never a verdict).

import (
	"bufio"
	"bytes"
	"context"
	"encoding/json"
	"fmt"
	"os"
	"runtime"
	"sort"
	"strconv"
	"strings"
	"sync"
	"testing"
	"time"

	"github.com/centrifugal/protocol"
	"github.com/prometheus/client_golang/prometheus"
	dto "github.com/prometheus/client_model/go"
)

func vspGoid() int64 {
	var buf [64]byte
	n := runtime.Stack(buf[:], false)
	// "goroutine 123 ["
	s := buf[:n]
	s = s[len("goroutine "):]
	i := bytes.IndexByte(s, ' ')
	id, _ := strconv.ParseInt(string(s[:i]), 10, 64)
	return id
}

type vspActorSpec struct {
	ID   string `json:"id"`
	Kind string `json:"kind"`
	Ch   string `json:"ch"`
	P    int    `json:"p"`
	J    int    `json:"j"`
	M    int    `json:"m"` // MapClientPresenceChannel "clients:<channel>" (client subscribe only)
	Fail string `json:"fail"`
}

type vspScenario struct {
	Connect []vspActorSpec   `json:"connect"` // connect-time server-side subscriptions (then an actor of kind "connect" must exist)
	Actors []vspActorSpec    `json:"actors"`
	Chans  []string          `json:"chans"`
	Sched  []json.RawMessage `json:"sched"`
	Batch  int               `json:"batch"` // the scenario's channels use per-channel write batching (Config.GetChannelBatchConfig, MaxDelay)
	Obs    int               `json:"obs"` // observer connections (JSON/Protobuf x bi/unidirectional) subscribed to every channel
}

const (
	vspNotStarted = iota
	vspRunning
	vspParked
	vspDone
)

type vspActor struct {
	spec    vspActorSpec
	goid    int64
	state   int
	tag     string
	release chan struct{}
	anon    bool
}

type vspSched struct {
	mu      sync.Mutex
	actors  []*vspActor
	byGoid  map[int64]*vspActor
	trace   []string
	freeRun bool
	anonN   int
	events  int
	errs    []string
	// connect-time subscriptions run in goroutines spawned by connectCmd: failure injection by channel
	failByCh map[string]string
}

func (s *vspSched) emit(format string, a ...any) {
	s.trace = append(s.trace, fmt.Sprintf(format, a...))
	s.events++
}

// real channel names are "<base>~<scenario number>" (the node is reused across scenarios)
func vspBase(ch string) string {
	if i := strings.IndexByte(ch, '~'); i >= 0 {
		return ch[:i]
	}
	return ch
}

func (s *vspSched) current() *vspActor {
	gid := vspGoid()
	a := s.byGoid[gid]
	if a == nil {
		s.anonN++
		a = &vspActor{spec: vspActorSpec{ID: "x" + strconv.Itoa(s.anonN), Kind: "close"}, goid: gid, state: vspRunning,
			release: make(chan struct{}, 1), anon: true}
		s.actors = append(s.actors, a)
		s.byGoid[gid] = a
		s.emit("anon %s", a.spec.ID)
	}
	return a
}

// gate parks the calling goroutine until released; effect runs atomically with the pass event.
func (s *vspSched) gate(tag, ch string, failable bool, effect func(fail bool)) bool {
	s.mu.Lock()
	a := s.current()
	fail := failable && (a.spec.Fail == tag || (tag == "onsub" && a.spec.Fail == "onsubdisc"))
	ch = vspBase(ch)
	if failable && a.anon && s.failByCh[ch] == tag {
		fail = true
	}
	if ch == "" {
		ch = "-"
	}
	if !s.freeRun {
		a.state = vspParked
		a.tag = tag
		s.emit("arrive %s %s %s", a.spec.ID, tag, ch)
		s.mu.Unlock()
		<-a.release
		s.mu.Lock()
		a.state = vspRunning
	}
	o := "ok"
	if fail {
		o = "fail"
		if a.spec.Fail == "onsubdisc" {
			o = "faildisc"
		}
	}
	s.emit("pass %s %s %s %s", a.spec.ID, tag, ch, o)
	if effect != nil {
		effect(fail)
	}
	s.mu.Unlock()
	return fail
}

// event is a non-parking observable step.
func (s *vspSched) event(tag, ch string) bool {
	s.mu.Lock()
	defer s.mu.Unlock()
	a := s.current()
	fail := a.spec.Fail == tag || (a.anon && s.failByCh[vspBase(ch)] == tag)
	o := "ok"
	if fail {
		o = "fail"
	}
	s.emit("ev %s %s %s %s", a.spec.ID, tag, vspBase(ch), o)
	return fail
}

func (s *vspSched) actorOpts() (p, j bool) {
	s.mu.Lock()
	defer s.mu.Unlock()
	a := s.byGoid[vspGoid()]
	if a == nil {
		return false, false
	}
	return a.spec.P != 0, a.spec.J != 0
}

var vspBlockedStates = map[string]bool{
	"chan receive": true, "chan send": true, "select": true, "select (no cases)": true,
	"sync.Mutex.Lock": true, "sync.RWMutex.Lock": true, "sync.RWMutex.RLock": true, "semacquire": true,
	"sync.Cond.Wait": true, "sleep": true, "sync.WaitGroup.Wait": true, "IO wait": true,
	"chan receive (nil chan)": true, "chan send (nil chan)": true,
}

type vspGoInfo struct {
	state     string
	inClose   bool
	createdBy int64
}

var (
	vspStackMu  sync.Mutex
	vspStackBuf = make([]byte, 1<<18)
)

func vspGoroutines() map[int64]vspGoInfo {
	vspStackMu.Lock()
	defer vspStackMu.Unlock()
	var buf []byte
	for {
		n := runtime.Stack(vspStackBuf, true)
		if n < len(vspStackBuf) {
			buf = vspStackBuf[:n]
			break
		}
		vspStackBuf = make([]byte, 2*len(vspStackBuf))
	}
	res := map[int64]vspGoInfo{}
	for _, blk := range bytes.Split(buf, []byte("\n\n")) {
		if !bytes.HasPrefix(blk, []byte("goroutine ")) {
			continue
		}
		nl := bytes.IndexByte(blk, '\n')
		hdr := blk
		if nl >= 0 {
			hdr = blk[:nl]
		}
		rest := hdr[len("goroutine "):]
		sp := bytes.IndexByte(rest, ' ')
		if sp < 0 {
			continue
		}
		id, err := strconv.ParseInt(string(rest[:sp]), 10, 64)
		if err != nil {
			continue
		}
		lb := bytes.IndexByte(rest, '[')
		rb := bytes.LastIndexByte(rest, ']')
		st := ""
		if lb >= 0 && rb > lb {
			st = string(rest[lb+1 : rb])
			if c := strings.IndexByte(st, ','); c >= 0 {
				st = st[:c]
			}
		}
		var creator int64
		if i := bytes.LastIndex(blk, []byte(" in goroutine ")); i >= 0 && bytes.Contains(blk, []byte("created by github.com/centrifugal/centrifuge.(*Client).")) &&
			!bytes.Contains(blk, []byte("created by github.com/centrifugal/centrifuge.(*Client).startWriter")) {
			tail := blk[i+len(" in goroutine "):]
			if nl := bytes.IndexByte(tail, '\n'); nl >= 0 {
				tail = tail[:nl]
			}
			creator, _ = strconv.ParseInt(string(bytes.TrimSpace(tail)), 10, 64)
		}
		res[id] = vspGoInfo{state: st, inClose: bytes.Contains(blk, []byte("centrifuge.(*Client).close(")), createdBy: creator}
	}
	return res
}

// quiescent: every running actor goroutine and every goroutine inside (*Client).close is blocked.
// Returns (quiescent, someone blocked outside a gate, a close() goroutine still exists).
func (s *vspSched) quiescent() (bool, bool, bool) {
	gs := vspGoroutines()
	s.mu.Lock()
	defer s.mu.Unlock()
	blocked := false
	closeAlive := false
	tracked := map[int64]bool{}
	for _, a := range s.actors {
		tracked[a.goid] = true
		switch a.state {
		case vspRunning:
			gi, ok := gs[a.goid]
			if a.anon && !ok {
				a.state = vspDone // an auto-spawned close() goroutine that has returned
				continue
			}
			if a.goid == 0 || !ok {
				return false, false, false // starting or exiting: state will change
			}
			if !vspBlockedStates[gi.state] {
				return false, false, false
			}
			blocked = true
			if gi.inClose {
				closeAlive = true
			}
		case vspParked:
			if gi, ok := gs[a.goid]; ok && gi.inClose {
				closeAlive = true
			}
		}
	}
	// goroutines started by the code under test from one of our goroutines (`go c.close(...)`), whether
	// they already run close() or have not been scheduled yet
	for changed := true; changed; {
		changed = false
		for id, gi := range gs {
			if !tracked[id] && gi.createdBy != 0 && tracked[gi.createdBy] {
				tracked[id] = true
				changed = true
				closeAlive = true
				if !vspBlockedStates[gi.state] {
					return false, false, false
				}
				blocked = true
			}
		}
	}
	return true, blocked, closeAlive
}

// stateStamp summarises what the scheduler knows: number of trace events and every actor's state.
func (s *vspSched) stateStamp() string {
	s.mu.Lock()
	defer s.mu.Unlock()
	var sb strings.Builder
	sb.WriteString(strconv.Itoa(s.events))
	for _, a := range s.actors {
		sb.WriteByte(' ')
		sb.WriteString(strconv.Itoa(a.state))
	}
	return sb.String()
}

func (s *vspSched) waitQuiescent() (blocked bool, closeAlive bool, err error) {
	deadline := time.Now().Add(30 * time.Second)
	okCount := 0
	last := ""
	for {
		// the goroutine snapshot is only meaningful if nothing the scheduler knows changed around it
		before := s.stateStamp()
		q, b, c := s.quiescent()
		after := s.stateStamp()
		if q && before == after && (okCount == 0 || last == after) {
			okCount++
			last = after
			if okCount >= 2 {
				return b, c, nil
			}
			runtime.Gosched()
			continue
		}
		okCount = 0
		if time.Now().After(deadline) {
			return false, false, fmt.Errorf("no quiescence within 30s")
		}
		time.Sleep(20 * time.Microsecond)
	}
}

// ---------------------------------------------------------------------------------- wrappers

// vspWorld is one Node with gate-instrumented Broker / PresenceManager / handlers, reused for
// many scenarios (node construction costs ~40 ms).  Every scenario gets its own Client, scheduler
// and channel names ("a~17"), so nothing of an earlier scenario can be confused with the current one.
type vspWorld struct {
	node   *Node
	broker *vspBroker
	pres   *vspPresence
	mapb   *vspMapBroker
	mu     sync.Mutex
	env    *vspEnv
	seq    int
}

func (w *vspWorld) cur() *vspEnv {
	w.mu.Lock()
	defer w.mu.Unlock()
	return w.env
}

type vspBroker struct {
	inner *MemoryBroker
	w     *vspWorld
}

func (b *vspBroker) RegisterBrokerEventHandler(h BrokerEventHandler) error {
	return b.inner.RegisterBrokerEventHandler(h)
}
func (b *vspBroker) Subscribe(chs ...string) error {
	e := b.w.cur()
	for _, ch := range chs {
		if e != nil && e.s.event("bsub", ch) {
			return fmt.Errorf("verif: injected broker subscribe failure")
		}
	}
	return b.inner.Subscribe(chs...)
}
func (b *vspBroker) Unsubscribe(chs ...string) error { return b.inner.Unsubscribe(chs...) }
func (b *vspBroker) Publish(ch string, data []byte, opts PublishOptions) (PublishResult, error) {
	return b.inner.Publish(ch, data, opts)
}
func (b *vspBroker) PublishJoin(ch string, info *ClientInfo) error {
	e := b.w.cur()
	if e == nil {
		return b.inner.PublishJoin(ch, info)
	}
	var err error
	e.s.gate("join", ch, false, func(bool) {
		e.cbMu.Lock()
		e.blog = append(e.blog, "J"+vspBase(ch))
		e.cbMu.Unlock()
		err = b.inner.PublishJoin(ch, info)
	})
	return err
}
func (b *vspBroker) PublishLeave(ch string, info *ClientInfo) error {
	e := b.w.cur()
	if e == nil {
		return b.inner.PublishLeave(ch, info)
	}
	var err error
	e.s.gate("leave", ch, false, func(bool) {
		e.cbMu.Lock()
		e.blog = append(e.blog, "L"+vspBase(ch))
		e.cbMu.Unlock()
		err = b.inner.PublishLeave(ch, info)
	})
	return err
}
func (b *vspBroker) History(ch string, opts HistoryOptions) ([]*Publication, StreamPosition, error) {
	return b.inner.History(ch, opts)
}
func (b *vspBroker) RemoveHistory(ch string) error { return b.inner.RemoveHistory(ch) }

type vspPresence struct {
	inner *MemoryPresenceManager
	w     *vspWorld
}

func (p *vspPresence) Presence(ch string) (map[string]*ClientInfo, error) { return p.inner.Presence(ch) }
func (p *vspPresence) PresenceStats(ch string) (PresenceStats, error)     { return p.inner.PresenceStats(ch) }
func (p *vspPresence) AddPresence(ch string, clientID string, info *ClientInfo) error {
	e := p.w.cur()
	if e == nil {
		return p.inner.AddPresence(ch, clientID, info)
	}
	var err error
	e.s.gate("presadd", ch, true, func(fail bool) {
		if fail {
			err = fmt.Errorf("verif: injected presence add failure")
			return
		}
		err = p.inner.AddPresence(ch, clientID, info)
	})
	return err
}
func (p *vspPresence) RemovePresence(ch string, clientID string, userID string) error {
	e := p.w.cur()
	if e == nil {
		return p.inner.RemovePresence(ch, clientID, userID)
	}
	var err error
	e.s.gate("presrm", ch, true, func(fail bool) {
		if fail {
			// injected PresenceManager failure: the entry stays (its removal is the call that failed)
			err = fmt.Errorf("verif: injected presence remove failure")
			return
		}
		err = p.inner.RemovePresence(ch, clientID, userID)
	})
	return err
}

type vspTransport struct {
	s      *vspSched // nil for observer connections (no gates)
	proto  ProtocolType
	uni    bool
	mu     sync.Mutex
	msgs   [][]byte
	closed bool
}

func (t *vspTransport) Name() string                     { return "vsp" }
func (t *vspTransport) AcceptProtocol() string           { return "" }
func (t *vspTransport) Protocol() ProtocolType {
	if t.proto == "" {
		return ProtocolTypeJSON
	}
	return t.proto
}
func (t *vspTransport) ProtocolVersion() ProtocolVersion { return ProtocolVersion2 }
func (t *vspTransport) Unidirectional() bool             { return t.uni }
func (t *vspTransport) Emulation() bool                  { return false }
func (t *vspTransport) PingPongConfig() PingPongConfig {
	return PingPongConfig{PingInterval: time.Hour, PongTimeout: -1}
}
func (t *vspTransport) DisabledPushFlags() uint64 {
	if t.s == nil {
		return 0
	}
	pc, _, _, ok := runtime.Caller(1)
	if ok {
		name := runtime.FuncForPC(pc).Name()
		if strings.HasSuffix(name, "(*Client).close") || strings.HasSuffix(name, "(*Client).Subscribe") {
			t.s.gate("dpf", "", false, nil)
		}
	}
	return 0
}
func (t *vspTransport) Write(m []byte) error {
	t.mu.Lock()
	defer t.mu.Unlock()
	t.msgs = append(t.msgs, append([]byte(nil), m...))
	return nil
}
func (t *vspTransport) WriteMany(ms ...[]byte) error {
	t.mu.Lock()
	defer t.mu.Unlock()
	for _, m := range ms {
		t.msgs = append(t.msgs, append([]byte(nil), m...))
	}
	return nil
}
func (t *vspTransport) Close(Disconnect) error {
	if t.s == nil {
		return nil
	}
	t.s.gate("tclose", "", false, func(bool) {
		t.mu.Lock()
		t.closed = true
		t.mu.Unlock()
	})
	return nil
}

// pushes decodes everything written to the transport the way a client of this transport's kind does:
// bidirectional = Reply objects, unidirectional = Push objects, in the transport's protocol.  A message in
// a foreign encoding or framing is unreadable for that client and yields nothing.
func (t *vspTransport) pushes() []*protocol.Push {
	t.mu.Lock()
	msgs := make([][]byte, len(t.msgs))
	copy(msgs, t.msgs)
	t.mu.Unlock()
	var out []*protocol.Push
	for _, m := range msgs {
		func() {
			defer func() { _ = recover() }()
			if t.Protocol() == ProtocolTypeProtobuf {
				if t.uni {
					var p protocol.Push
					if err := p.UnmarshalVT(m); err == nil {
						out = append(out, &p)
					}
					return
				}
				var r protocol.Reply
				if err := r.UnmarshalVT(m); err == nil && r.Push != nil {
					out = append(out, r.Push)
				}
				return
			}
			if t.uni {
				var p protocol.Push
				if err := json.Unmarshal(m, &p); err == nil {
					out = append(out, &p)
				}
				return
			}
			dec := protocol.NewJSONReplyDecoder(m)
			for {
				r, err := dec.Decode()
				if r != nil && r.Push != nil {
					out = append(out, r.Push)
				}
				if err != nil {
					return
				}
			}
		}()
	}
	return out
}

// countPub: how many decodable publications with exactly this payload arrived on the channel
func (t *vspTransport) countPub(ch string, data string) int {
	n := 0
	for _, p := range t.pushes() {
		if p.Pub != nil && p.Channel == ch && string(p.Pub.Data) == data {
			n++
		}
	}
	return n
}

func (t *vspTransport) sawMessage(data string) bool {
	for _, p := range t.pushes() {
		if p.Message != nil && string(p.Message.Data) == data {
			return true
		}
	}
	return false
}

// joinLeaveSeq: the join / leave pushes about connection `uid` on channel `ch`, in arrival order
func (t *vspTransport) joinLeaveSeq(ch string, uid string) string {
	var sb strings.Builder
	for _, p := range t.pushes() {
		if p.Channel != ch {
			continue
		}
		if p.Join != nil && p.Join.Info != nil && p.Join.Info.Client == uid {
			sb.WriteByte('J')
		}
		if p.Leave != nil && p.Leave.Info != nil && p.Leave.Info.Client == uid {
			sb.WriteByte('L')
		}
	}
	if sb.Len() == 0 {
		return "-"
	}
	return sb.String()
}

// vspMapBroker: the MemoryMapBroker with gates at Publish / Remove (map presence add, refresh, removal)
type vspMapBroker struct {
	*MemoryMapBroker
	w *vspWorld
}

func (b *vspMapBroker) Publish(ctx context.Context, ch string, key string, opts MapPublishOptions) (MapUpdateResult, error) {
	e := b.w.cur()
	if e == nil || !strings.HasPrefix(ch, "clients:") {
		return b.MemoryMapBroker.Publish(ctx, ch, key, opts)
	}
	var res MapUpdateResult
	var err error
	e.s.gate("mappub", strings.TrimPrefix(ch, "clients:"), false, func(bool) {
		res, err = b.MemoryMapBroker.Publish(ctx, ch, key, opts)
	})
	return res, err
}

func (b *vspMapBroker) Remove(ctx context.Context, ch string, key string, opts MapRemoveOptions) (MapUpdateResult, error) {
	e := b.w.cur()
	if e == nil || !strings.HasPrefix(ch, "clients:") {
		return b.MemoryMapBroker.Remove(ctx, ch, key, opts)
	}
	var res MapUpdateResult
	var err error
	e.s.gate("maprm", strings.TrimPrefix(ch, "clients:"), false, func(bool) {
		res, err = b.MemoryMapBroker.Remove(ctx, ch, key, opts)
	})
	return res, err
}

func vspNewWorld() (*vspWorld, error) {
	w := &vspWorld{}
	registry := prometheus.NewRegistry()
	node, err := New(Config{
		LogLevel: LogLevelInfo,
		LogHandler: func(entry LogEntry) {
			if entry.Message == "timeout waiting for subscribe to finish" {
				if e := w.cur(); e != nil {
					ch, _ := entry.Fields["channel"].(string)
					e.s.gate("tmolog", ch, false, nil)
				}
			}
		},
		Metrics: MetricsConfig{RegistererGatherer: registry},
		// channels named "<base>~b<n>" are batched: pushes to their subscribers wait in the per-channel writer
		GetChannelBatchConfig: func(channel string) ChannelBatchConfig {
			if strings.Contains(channel, "~b") {
				return ChannelBatchConfig{MaxDelay: vspBatchDelay}
			}
			return ChannelBatchConfig{}
		},
		Map: MapConfig{
			GetMapChannelOptions: func(channel string) MapChannelOptions {
				return MapChannelOptions{Mode: MapModeEphemeral, KeyTTL: 60 * time.Second, MinPageSize: 1}
			},
		},
	})
	if err != nil {
		return nil, err
	}
	w.node = node
	w.mapb = &vspMapBroker{MemoryMapBroker: node.mapBroker.(*MemoryMapBroker), w: w}
	node.SetMapBroker(w.mapb)
	w.broker = &vspBroker{inner: node.broker.(*MemoryBroker), w: w}
	node.SetBroker(w.broker)
	w.pres = &vspPresence{inner: node.presenceManager.(*MemoryPresenceManager), w: w}
	node.SetPresenceManager(w.pres)
	node.OnConnecting(func(ctx context.Context, ev ConnectEvent) (ConnectReply, error) {
		rep := ConnectReply{Credentials: &Credentials{UserID: "u1"}}
		if e := w.cur(); e != nil && len(e.connectSubs) > 0 {
			e.s.gate("connecting", "", false, nil)
			rep.Subscriptions = map[string]SubscribeOptions{}
			for _, cs := range e.connectSubs {
				rep.Subscriptions[e.real(cs.Ch)] = SubscribeOptions{EmitPresence: cs.P != 0, EmitJoinLeave: cs.J != 0, PushJoinLeave: cs.J != 0}
			}
		}
		return rep, nil
	})
	node.OnConnect(func(c *Client) {
		if e := w.cur(); e != nil && len(e.connectSubs) > 0 {
			e.s.gate("onconnect", "", false, nil)
		}
		c.OnSubscribe(func(ev SubscribeEvent, cb SubscribeCallback) {
			e := w.cur()
			if e == nil {
				cb(SubscribeReply{}, ErrorNotAvailable)
				return
			}
			s := e.s
			p, j := s.actorOpts()
			s.mu.Lock()
			a := s.byGoid[vspGoid()]
			s.mu.Unlock()
			s.gate("onsub", ev.Channel, true, nil)
			var cerr error
			if a != nil && a.spec.Fail == "onsub" {
				cerr = ErrorPermissionDenied
			} else if a != nil && a.spec.Fail == "onsubdisc" {
				cerr = DisconnectInvalidToken
			}
			opts := SubscribeOptions{EmitPresence: p, EmitJoinLeave: j, PushJoinLeave: j}
			if a != nil && a.spec.M != 0 {
				opts.MapClientPresenceChannel = "clients:" + ev.Channel
			}
			cb(SubscribeReply{Options: opts}, cerr)
		})
		c.OnUnsubscribe(func(ev UnsubscribeEvent) {
			e := w.cur()
			if e == nil {
				return
			}
			e.s.gate("onunsub", ev.Channel, false, func(bool) {
				e.cbMu.Lock()
				e.onUnsub[vspBase(ev.Channel)]++
				e.cbMu.Unlock()
			})
		})
		c.OnDisconnect(func(ev DisconnectEvent) {
			e := w.cur()
			if e == nil {
				return
			}
			e.s.gate("ondisc", "", false, func(bool) {
				e.cbMu.Lock()
				e.onDisc++
				e.cbMu.Unlock()
			})
		})
	})
	if err := node.Run(); err != nil {
		return nil, err
	}
	return w, nil
}

// ---------------------------------------------------------------------------------- scenario

type vspEnv struct {
	s        *vspSched
	w        *vspWorld
	node     *Node
	client   *Client
	tr       *vspTransport
	chans    []string // base names
	suffix   string
	onUnsub  map[string]int
	onDisc   int
	blog     []string
	cbMu     sync.Mutex
	holding  bool
	observers []*vspObserver
	connectSubs []vspActorSpec
	baseConn float64
	baseSub  float64
}

type vspObserver struct {
	name   string
	client *Client
	tr     *vspTransport
}

func (e *vspEnv) real(ch string) string {
	if ch == "" {
		return ""
	}
	return ch + e.suffix
}

func vspGaugeSum(g *prometheus.GaugeVec) float64 {
	ch := make(chan prometheus.Metric, 256)
	g.Collect(ch)
	close(ch)
	var sum float64
	for m := range ch {
		var d dto.Metric
		if err := m.Write(&d); err == nil {
			sum += d.GetGauge().GetValue()
		}
	}
	return sum
}

func (e *vspEnv) obs() string {
	c := e.client
	var sb strings.Builder
	c.mu.RLock()
	st := int(c.status)
	type ent struct {
		gen   uint64
		flags uint16
		gate  bool
	}
	ents := map[string]ent{}
	extra := 0
	for ch, cc := range c.channels {
		ents[ch] = ent{cc.subGen, cc.flags, cc.subscribingCh != nil}
		known := false
		for _, k := range e.chans {
			if e.real(k) == ch {
				known = true
			}
		}
		if !known {
			extra++
		}
	}
	c.mu.RUnlock()
	cs := e.node.hub.connShards[index(c.UserID(), numHubShards)]
	cs.mu.RLock()
	_, reg := cs.clients[c.uid]
	cs.mu.RUnlock()
	r := 0
	if reg {
		r = 1
	}
	fmt.Fprintf(&sb, "st=%d reg=%d cg=%d sg=%d", st, r, int(vspGaugeSum(e.node.metrics.connectionsInflight)-e.baseConn),
		int(vspGaugeSum(e.node.metrics.subscriptionsInflight)-e.baseSub))
	for _, base := range e.chans {
		ch := e.real(base)
		sb.WriteString(" " + base + ":")
		if en, ok := ents[ch]; ok {
			fmt.Fprintf(&sb, "g%d", en.gen)
			if channelHasFlag(en.flags, flagSubscribed) {
				sb.WriteString("S")
				if channelHasFlag(en.flags, flagEmitPresence) {
					sb.WriteString("p")
				}
				if channelHasFlag(en.flags, flagEmitJoinLeave) {
					sb.WriteString("j")
				}
				if channelHasFlag(en.flags, flagServerSide) {
					sb.WriteString("v")
				}
			} else {
				sb.WriteString("R")
			}
			if en.gate {
				sb.WriteString("o")
			} else {
				sb.WriteString("n")
			}
		} else {
			sb.WriteString("-")
		}
		sh := e.node.hub.subShards[index(ch, numHubShards)]
		sh.mu.RLock()
		si, ok := sh.subs[ch][c.uid]
		sh.mu.RUnlock()
		if ok {
			fmt.Fprintf(&sb, ",h%d", si.subGen)
		} else {
			sb.WriteString(",h-")
		}
		pr, _ := e.w.pres.inner.Presence(ch)
		if _, ok := pr[c.uid]; ok {
			sb.WriteString(",p1")
		} else {
			sb.WriteString(",p0")
		}
	}
	e.cbMu.Lock()
	sb.WriteString(" log=" + strings.Join(e.blog, ","))
	e.cbMu.Unlock()
	if extra > 0 {
		fmt.Fprintf(&sb, " extrachans=%d", extra)
	}
	return sb.String()
}

func (e *vspEnv) runActor(a *vspActor) {
	s := e.s
	s.mu.Lock()
	a.goid = vspGoid()
	s.byGoid[a.goid] = a
	s.mu.Unlock()
	ret := "ok"
	func() {
		defer func() {
			if r := recover(); r != nil {
				ret = "PANIC"
			}
		}()
		c := e.client
		ch := e.real(a.spec.Ch)
		rw := &replyWriter{write: func(rep *protocol.Reply) {
			if rep.Error != nil {
				s.gate("replyerr", "", false, nil)
			} else {
				s.gate("reply", "", false, nil)
			}
		}}
		switch a.spec.Kind {
		case "csub":
			if err := c.handleSubscribe(&protocol.SubscribeRequest{Channel: ch}, &protocol.Command{Id: 7}, time.Now(), rw); err != nil {
				ret = "err"
			}
		case "ssub":
			if err := c.Subscribe(ch, WithEmitPresence(a.spec.P != 0), WithEmitJoinLeave(a.spec.J != 0), WithPushJoinLeave(a.spec.J != 0)); err != nil {
				ret = "err"
			}
		case "cunsub":
			if err := c.handleUnsubscribe(&protocol.UnsubscribeRequest{Channel: ch}, &protocol.Command{Id: 8}, time.Now(), rw); err != nil {
				ret = "err"
			}
		case "sunsub":
			c.Unsubscribe(ch)
		case "close":
			_ = c.close(DisconnectForceNoReconnect)
		case "tick":
			c.updatePresence()
		case "connect":
			// the real command path: a failing connect makes HandleCommand spawn close()
			if !c.HandleCommand(&protocol.Command{Id: 1, Connect: &protocol.ConnectRequest{}}, 0) {
				ret = "err"
			}
		}
	}()
	s.mu.Lock()
	a.state = vspDone
	s.emit("done %s %s", a.spec.ID, ret)
	s.mu.Unlock()
}

var vspTheWorld *vspWorld

const vspBatchDelay = 80 * time.Millisecond
var vspLastSched *vspSched

func vspRunScenario(line string) (out string) {
	defer func() {
		if r := recover(); r != nil {
			out = fmt.Sprintf("HARNESS-ERROR panic %v", r)
		}
		if strings.HasPrefix(out, "HARNESS-ERROR") && os.Getenv("VERIF_DEBUG") != "" && vspLastSched != nil {
			s := vspLastSched
			s.mu.Lock()
			out += " TRACE " + strings.Join(s.trace, ";")
			s.mu.Unlock()
			buf := make([]byte, 1<<20)
			n := runtime.Stack(buf, true)
			os.WriteFile("/tmp/vsp/stacks.txt", buf[:n], 0o644)
		}
		if strings.HasPrefix(out, "HARNESS-ERROR") && vspTheWorld != nil {
			// never reuse a node after a harness problem
			w := vspTheWorld
			vspTheWorld = nil
			go func() {
				ctx, cancel := context.WithTimeout(context.Background(), 2*time.Second)
				_ = w.node.Shutdown(ctx)
				cancel()
			}()
		}
	}()
	if !strings.HasPrefix(line, "sched ") {
		return "bad-op"
	}
	var sc vspScenario
	if err := json.Unmarshal([]byte(line[len("sched "):]), &sc); err != nil {
		return "bad-op"
	}
	if vspTheWorld == nil {
		w, err := vspNewWorld()
		if err != nil {
			return "HARNESS-ERROR new node: " + err.Error()
		}
		vspTheWorld = w
	}
	w := vspTheWorld
	w.seq++
	node := w.node
	s := &vspSched{byGoid: map[int64]*vspActor{}, freeRun: true}
	vspLastSched = s
	e := &vspEnv{s: s, w: w, node: node, chans: sc.Chans, suffix: "~" + strconv.Itoa(w.seq), onUnsub: map[string]int{}}
	if sc.Batch != 0 {
		e.suffix = "~b" + strconv.Itoa(w.seq)
	}
	if len(sc.Connect) > 0 {
		s.failByCh = map[string]string{}
		for _, cs := range sc.Connect {
			if cs.Fail != "" {
				s.failByCh[cs.Ch] = cs.Fail
			}
		}
	}
	w.mu.Lock()
	w.env = e
	w.mu.Unlock()
	defer func() {
		s.mu.Lock()
		s.freeRun = true
		for _, a := range s.actors {
			if a.state == vspParked {
				select {
				case a.release <- struct{}{}:
				default:
				}
			}
		}
		s.mu.Unlock()
		if e.holding {
			e.client.connectMu.Unlock()
			e.holding = false
		}
		if e.client != nil {
			_ = e.client.close(DisconnectForceNoReconnect)
		}
		for _, o := range e.observers {
			_ = o.client.close(DisconnectForceNoReconnect)
		}
		w.mu.Lock()
		w.env = nil
		w.mu.Unlock()
	}()
	if sc.Obs != 0 {
		// observers: every protocol x direction (two of each), subscribed (server side, with join/leave pushes) to every channel
		// before the scenario starts; they stay subscribed to the end and decode what they receive
		for _, k := range []struct {
			name  string
			proto ProtocolType
			uni   bool
		}{
			// small Go maps iterate in insertion order from a random start: the subscription order below makes
			// neighbours that differ in protocol (jb/pu/ju/pb) as well as neighbours that differ ONLY in
			// direction (ju2/jb2, pb2/pu2) for the hub's encoded-payload caches
			{"jb", ProtocolTypeJSON, false}, {"pu", ProtocolTypeProtobuf, true}, {"ju", ProtocolTypeJSON, true}, {"pb", ProtocolTypeProtobuf, false},
			{"ju2", ProtocolTypeJSON, true}, {"jb2", ProtocolTypeJSON, false}, {"pb2", ProtocolTypeProtobuf, false}, {"pu2", ProtocolTypeProtobuf, true}} {
			otr := &vspTransport{proto: k.proto, uni: k.uni}
			octx, ocancel := context.WithCancel(context.Background())
			defer ocancel()
			oc, _, err := NewClient(octx, node, otr)
			if err != nil {
				return "HARNESS-ERROR observer: " + err.Error()
			}
			if err := oc.connectCmd(&protocol.ConnectRequest{}, &protocol.Command{Id: 1}, time.Now(), &replyWriter{write: func(*protocol.Reply) {}}); err != nil {
				return "HARNESS-ERROR observer connect: " + err.Error()
			}
			oc.triggerConnect()
			for _, ch := range e.chans {
				if err := oc.Subscribe(e.real(ch), WithPushJoinLeave(true)); err != nil {
					return "HARNESS-ERROR observer subscribe: " + err.Error()
				}
			}
			e.observers = append(e.observers, &vspObserver{name: k.name, client: oc, tr: otr})
		}
	}
	e.baseConn = vspGaugeSum(node.metrics.connectionsInflight)
	e.baseSub = vspGaugeSum(node.metrics.subscriptionsInflight)
	e.tr = &vspTransport{s: s}
	ctx, cancelFn := context.WithCancel(context.Background())
	defer cancelFn()
	client, _, err := NewClient(ctx, node, e.tr)
	if err != nil {
		return "HARNESS-ERROR new client: " + err.Error()
	}
	e.client = client
	if len(sc.Connect) == 0 {
		// connect (free-run: gates pass straight through; nothing is recorded before the scenario starts)
		if err := client.connectCmd(&protocol.ConnectRequest{}, &protocol.Command{Id: 1}, time.Now(), &replyWriter{write: func(*protocol.Reply) {}}); err != nil {
			return "HARNESS-ERROR connect: " + err.Error()
		}
		client.triggerConnect()
	} else {
		e.connectSubs = sc.Connect // the connect itself is an actor of this scenario
	}
	s.mu.Lock()
	s.trace = nil
	s.events = 0
	s.byGoid = map[int64]*vspActor{}
	s.actors = nil
	s.anonN = 0
	s.freeRun = false
	for _, sp := range sc.Actors {
		a := &vspActor{spec: sp, release: make(chan struct{}, 1)}
		s.actors = append(s.actors, a)
	}
	s.mu.Unlock()

	releasable := func() []*vspActor {
		s.mu.Lock()
		defer s.mu.Unlock()
		// an application can reach a connection (Client.Subscribe / Unsubscribe, commands) only once
		// connectCmd registered it in the hub: in connect scenarios such actors wait for that
		registered := true
		if len(e.connectSubs) > 0 {
			cs := node.hub.connShards[index("u1", numHubShards)]
			cs.mu.RLock()
			_, registered = cs.clients[client.uid]
			cs.mu.RUnlock()
			client.mu.RLock()
			if client.status == statusClosed {
				registered = true // the operation is then a no-op on a closed client
			}
			client.mu.RUnlock()
		}
		var r []*vspActor
		for _, a := range s.actors {
			if a.state == vspNotStarted && !registered && a.spec.Kind != "connect" && a.spec.Kind != "close" {
				continue
			}
			if a.state == vspNotStarted || a.state == vspParked {
				r = append(r, a)
			}
		}
		return r
	}
	release := func(a *vspActor) {
		s.mu.Lock()
		if a.state == vspNotStarted {
			a.state = vspRunning
			pj := ""
			if a.spec.P != 0 {
				pj += "p"
			}
			if a.spec.J != 0 {
				pj += "j"
			}
			if pj == "" {
				pj = "-"
			}
			ch := a.spec.Ch
			if ch == "" {
				ch = "-"
			}
			s.emit("spawn %s %s %s %s", a.spec.ID, a.spec.Kind, ch, pj)
			s.mu.Unlock()
			go e.runActor(a)
			return
		}
		// the actor counts as running from the moment it is released (not from the moment its goroutine
		// wakes up): otherwise the scheduler could take the system for quiescent in between
		a.state = vspRunning
		s.mu.Unlock()
		a.release <- struct{}{}
	}
	waitProgress := func() bool {
		s.mu.Lock()
		ev0 := s.events
		s.mu.Unlock()
		deadline := time.Now().Add(9 * time.Second)
		for i := 0; time.Now().Before(deadline); i++ {
			time.Sleep(2 * time.Millisecond)
			s.mu.Lock()
			ev := s.events
			s.mu.Unlock()
			if ev != ev0 {
				return true
			}
			if i%50 == 49 {
				if q, b, c := s.quiescent(); q && !b && !c {
					return true // nothing is blocked any more
				}
			}
		}
		return false
	}
	allDone := func() bool {
		s.mu.Lock()
		defer s.mu.Unlock()
		for _, a := range s.actors {
			if a.state != vspDone && !a.anon {
				return false
			}
			if a.anon && a.state == vspParked {
				return false
			}
		}
		return true
	}
	unhold := func() {
		if e.holding {
			s.mu.Lock()
			s.emit("unhold")
			s.mu.Unlock()
			e.client.connectMu.Unlock()
			e.holding = false
		}
	}
	step := func(entry string) error {
		blocked, _, err := s.waitQuiescent()
		if err != nil {
			return err
		}
		s.mu.Lock()
		s.emit("obs %s", e.obs())
		s.mu.Unlock()
		switch entry {
		case "H":
			if !e.holding && e.client.connectMu.TryLock() {
				e.holding = true
				s.mu.Lock()
				s.emit("hold")
				s.mu.Unlock()
			}
			return nil
		case "R":
			unhold()
			return nil
		}
		rel := releasable()
		if entry == "T" || len(rel) == 0 {
			if blocked {
				if e.holding && len(rel) == 0 {
					unhold() // only the held lock can be blocking progress
					return nil
				}
				if !waitProgress() {
					if os.Getenv("VERIF_DEBUG") != "" {
						buf := make([]byte, 1<<20)
						n := runtime.Stack(buf, true)
						_ = os.WriteFile("/tmp/vsp/stacks.txt", buf[:n], 0o644)
					}
					return fmt.Errorf("blocked actors made no progress in 9s")
				}
			}
			return nil
		}
		if strings.HasPrefix(entry, "@") {
			for _, a := range rel {
				if a.spec.ID == entry[1:] {
					release(a)
					return nil
				}
			}
			return nil // named actor not releasable now: no-op
		}
		i, perr := strconv.Atoi(entry)
		if perr != nil || i < 0 {
			i = 0
		}
		release(rel[i%len(rel)])
		return nil
	}
	for _, raw := range sc.Sched {
		entry := strings.Trim(string(raw), "\"")
		if err := step(entry); err != nil {
			return "HARNESS-ERROR " + err.Error()
		}
	}
	// drain
	for guard := 0; ; guard++ {
		_, closeAlive, err := s.waitQuiescent()
		if err != nil {
			return "HARNESS-ERROR " + err.Error()
		}
		if allDone() && !closeAlive && !e.holding {
			break
		}
		if guard >= 400 {
			return "HARNESS-ERROR drain did not terminate"
		}
		if e.holding && len(releasable()) == 0 {
			unhold()
			continue
		}
		if err := step("0"); err != nil {
			return "HARNESS-ERROR " + err.Error()
		}
	}
	// settled: observe, then marker publish per channel
	final := e.obs()
	s.mu.Lock()
	s.freeRun = true
	s.mu.Unlock()
	const nMark = 3
	mark := func(ch string, k int) string { return `{"m":"vspmark-` + ch + `-` + strconv.Itoa(k) + `"}` }
	for k := 0; k < nMark; k++ {
		for _, ch := range e.chans {
			if _, err := node.Publish(e.real(ch), []byte(mark(ch, k))); err != nil {
				return "HARNESS-ERROR publish: " + err.Error()
			}
		}
	}
	if sc.Batch != 0 {
		// batched pushes reach the connection queues only when the per-channel writers flush
		time.Sleep(vspBatchDelay + 70*time.Millisecond)
	}
	client.mu.RLock()
	closed := client.status == statusClosed
	client.mu.RUnlock()
	// everything enqueued before the sentinel is written before it (one FIFO queue per connection)
	waitFor := func(c *Client, tr *vspTransport) bool {
		_ = c.Send([]byte(`{"m":"vspend"}`))
		deadline := time.Now().Add(10 * time.Second)
		for !tr.sawMessage(`{"m":"vspend"}`) {
			if time.Now().After(deadline) {
				return false
			}
			time.Sleep(100 * time.Microsecond)
		}
		return true
	}
	if !closed {
		if !waitFor(client, e.tr) {
			return "HARNESS-ERROR sentinel not delivered"
		}
	} else {
		time.Sleep(300 * time.Microsecond)
	}
	for _, o := range e.observers {
		if !waitFor(o.client, o.tr) {
			return "HARNESS-ERROR observer sentinel not delivered (" + o.name + ")"
		}
	}
	minmax := func(tr *vspTransport, ch string) string {
		lo, hi := 1<<30, 0
		for k := 0; k < nMark; k++ {
			n := tr.countPub(e.real(ch), mark(ch, k))
			if n < lo {
				lo = n
			}
			if n > hi {
				hi = n
			}
		}
		return fmt.Sprintf("%d:%d", lo, hi)
	}
	var recv []string
	var reported []string
	var orecv []string
	var ojl []string
	chset := client.ChannelsWithContext()
	for _, ch := range e.chans {
		recv = append(recv, ch+":"+minmax(e.tr, ch))
		if _, ok := chset[e.real(ch)]; ok {
			reported = append(reported, ch)
		}
		for _, o := range e.observers {
			sub := 0
			if o.client.IsSubscribed(e.real(ch)) {
				sub = 1
			}
			orecv = append(orecv, fmt.Sprintf("%s.%s:%d:%s", o.name, ch, sub, minmax(o.tr, ch)))
			ojl = append(ojl, fmt.Sprintf("%s.%s:%s", o.name, ch, o.tr.joinLeaveSeq(e.real(ch), client.uid)))
		}
	}
	sort.Strings(reported)
	// map client presence entries of this connection ("clients:<channel>", key = client id)
	var mappres []string
	for _, ch := range e.chans {
		n := 0
		if st, err := w.mapb.MemoryMapBroker.ReadState(context.Background(), "clients:"+e.real(ch), MapReadStateOptions{Limit: 100}); err == nil {
			for _, pub := range st.Publications {
				if pub.Key == client.uid {
					n++
				}
			}
		}
		mappres = append(mappres, fmt.Sprintf("%s:%d", ch, n))
	}
	// C05 extras: users map, sessions, hub counters for this scenario's channels
	cs := node.hub.connShards[index(client.UserID(), numHubShards)]
	cs.mu.RLock()
	userReg := false
	if us, ok := cs.users[client.UserID()]; ok {
		_, userReg = us[client.uid]
	}
	cs.mu.RUnlock()
	node.hub.sessionsMu.RLock()
	nsess := 0
	if sid := client.sessionID(); sid != "" {
		if _, ok := node.hub.sessions[sid]; ok {
			nsess = 1
		}
	}
	node.hub.sessionsMu.RUnlock()
	_, inConns := node.hub.Connections()[client.uid]
	nsubs := 0
	for _, ch := range e.chans {
		nsubs += node.hub.NumSubscribers(e.real(ch)) - len(e.observers)
	}
	e.cbMu.Lock()
	var unsubs []string
	for _, ch := range e.chans {
		unsubs = append(unsubs, fmt.Sprintf("%s:%d", ch, e.onUnsub[ch]))
	}
	ondisc := e.onDisc
	e.cbMu.Unlock()
	client.mu.RLock()
	nch := len(client.channels)
	client.mu.RUnlock()
	s.mu.Lock()
	if len(orecv) == 0 {
		orecv, ojl = []string{"-"}, []string{"-"}
	}
	s.emit("final %s | recv=%s reported=%s users=%v sessions=%d inconns=%v numsubs=%d nchan=%d onunsub=%s ondisc=%d keyed=%v mappres=%s orecv=%s ojl=%s",
		final, strings.Join(recv, ","), strings.Join(reported, ","), userReg, nsess, inConns,
		nsubs, nch, strings.Join(unsubs, ","), ondisc, client.keyed != nil, strings.Join(mappres, ","),
		strings.Join(orecv, ","), strings.Join(ojl, ","))
	res := strings.Join(s.trace, ";")
	s.mu.Unlock()
	return res
}

// vspRunWithWatchdog never lets one scenario block the batch: after 75 s the scenario is given up (reported
// as a harness error, never a verdict), its node is abandoned and the next scenario gets a fresh one.
func vspRunWithWatchdog(line string) string {
	done := make(chan string, 1)
	go func() { done <- vspRunScenario(line) }()
	select {
	case r := <-done:
		return r
	case <-time.After(75 * time.Second):
		vspTheWorld = nil
		if out := os.Getenv("VERIF_OUT"); out != "" {
			buf := make([]byte, 1<<22)
			n := runtime.Stack(buf, true)
			_ = os.WriteFile(out+".hang", buf[:n], 0o644)
		}
		return "HARNESS-ERROR scenario watchdog (75s)"
	}
}

func TestVerifSubProto(t *testing.T) {
	in, err := os.Open(os.Getenv("VERIF_OPS"))
	if err != nil {
		t.Skip("no VERIF_OPS")
	}
	defer in.Close()
	out, err := os.Create(os.Getenv("VERIF_OUT"))
	if err != nil {
		t.Fatal(err)
	}
	defer out.Close()
	w := bufio.NewWriter(out)
	defer w.Flush()
	sc := bufio.NewScanner(in)
	sc.Buffer(make([]byte, 1<<20), 1<<26)
	for sc.Scan() {
		line := sc.Text()
		if line == "" || strings.HasPrefix(line, "#") {
			fmt.Fprintln(w, "#")
			continue
		}
		fmt.Fprintln(w, vspRunWithWatchdog(line))
		w.Flush()
	}
}
