//go:build verif

package centrifuge

// Verification harness for C04 / C05 / C07 (injected with `go test -overlay`, never part of the repo).
//
// One op line = one scenario:  `sched <json>`  with
//   {"actors":[{"id":"A","kind":"csub|ssub|cunsub|sunsub|close","ch":"a","p":0|1,"j":0|1,
//               "fail":""|"onsub"|"onsubdisc"|"bsub"|"presadd"}, ...],
//    "chans":["a","b"], "sched":[<int>|"T"|"H"|"R", ...]}
//
// A real Node + real Client are driven by actor goroutines.  Every external call the connection
// makes (OnSubscribe / OnUnsubscribe / OnDisconnect handlers, PresenceManager add/remove,
// Broker.PublishJoin / PublishLeave, reply writer, Transport.Close, Transport.DisabledPushFlags
// from close() and Client.Subscribe, the "timeout waiting" log line) is a gate: the calling
// goroutine parks until the scheduler releases it.  The scheduler releases one goroutine at a
// time and waits for quiescence (every tracked goroutine parked at a gate, blocked, or finished;
// established from a runtime.Stack snapshot).  Schedule entries: an integer i = release the
// (i mod n)-th releasable actor; "T" = let real time pass until something moves (the 5 s
// unsubscribe wait-gate timeout); "H" = hold c.connectMu (delays any close() at its entry, which
// is how a not-yet-scheduled `go c.close()` is represented); "R" = release it.
//
// Output (one line per scenario): `<ev>;<ev>;...` where events are
//   spawn <A> <kind> <ch> <p><j> | arrive <A> <tag> <ch> | pass <A> <tag> <ch> <ok|fail> |
//   ev <A> bsub <ch> <ok|fail> | done <A> <ok|err|PANIC> | anon <X> | hold | unhold |
//   obs <abstract state> | final <abstract state> recv=<ch>:<n>,... extra=<...>
// or `HARNESS-ERROR <why>` (never a verdict).

import (
	"bufio"
	"bytes"
	"context"
	"encoding/json"
	"fmt"
	"os"
	"runtime"
	"sort"
	"strconv"
	"strings"
	"sync"
	"testing"
	"time"

	"github.com/centrifugal/protocol"
	"github.com/prometheus/client_golang/prometheus"
	dto "github.com/prometheus/client_model/go"
)

func vspGoid() int64 {
	var buf [64]byte
	n := runtime.Stack(buf[:], false)
	// "goroutine 123 ["
	s := buf[:n]
	s = s[len("goroutine "):]
	i := bytes.IndexByte(s, ' ')
	id, _ := strconv.ParseInt(string(s[:i]), 10, 64)
	return id
}

type vspActorSpec struct {
	ID   string `json:"id"`
	Kind string `json:"kind"`
	Ch   string `json:"ch"`
	P    int    `json:"p"`
	J    int    `json:"j"`
	Fail string `json:"fail"`
}

type vspScenario struct {
	Actors []vspActorSpec    `json:"actors"`
	Chans  []string          `json:"chans"`
	Sched  []json.RawMessage `json:"sched"`
}

const (
	vspNotStarted = iota
	vspRunning
	vspParked
	vspDone
)

type vspActor struct {
	spec    vspActorSpec
	goid    int64
	state   int
	tag     string
	release chan struct{}
	anon    bool
}

type vspSched struct {
	mu      sync.Mutex
	actors  []*vspActor
	byGoid  map[int64]*vspActor
	trace   []string
	freeRun bool
	anonN   int
	events  int
	errs    []string
}

func (s *vspSched) emit(format string, a ...any) {
	s.trace = append(s.trace, fmt.Sprintf(format, a...))
	s.events++
}

func (s *vspSched) current() *vspActor {
	gid := vspGoid()
	a := s.byGoid[gid]
	if a == nil {
		s.anonN++
		a = &vspActor{spec: vspActorSpec{ID: "x" + strconv.Itoa(s.anonN), Kind: "close"}, goid: gid, state: vspRunning,
			release: make(chan struct{}, 1), anon: true}
		s.actors = append(s.actors, a)
		s.byGoid[gid] = a
		s.emit("anon %s", a.spec.ID)
	}
	return a
}

// gate parks the calling goroutine until released; effect runs atomically with the pass event.
func (s *vspSched) gate(tag, ch string, failable bool, effect func(fail bool)) bool {
	s.mu.Lock()
	a := s.current()
	fail := failable && (a.spec.Fail == tag || (tag == "onsub" && a.spec.Fail == "onsubdisc"))
	if ch == "" {
		ch = "-"
	}
	if !s.freeRun {
		a.state = vspParked
		a.tag = tag
		s.emit("arrive %s %s %s", a.spec.ID, tag, ch)
		s.mu.Unlock()
		<-a.release
		s.mu.Lock()
		a.state = vspRunning
	}
	o := "ok"
	if fail {
		o = "fail"
		if a.spec.Fail == "onsubdisc" {
			o = "faildisc"
		}
	}
	s.emit("pass %s %s %s %s", a.spec.ID, tag, ch, o)
	if effect != nil {
		effect(fail)
	}
	s.mu.Unlock()
	return fail
}

// event is a non-parking observable step.
func (s *vspSched) event(tag, ch string) bool {
	s.mu.Lock()
	defer s.mu.Unlock()
	a := s.current()
	fail := a.spec.Fail == tag
	o := "ok"
	if fail {
		o = "fail"
	}
	s.emit("ev %s %s %s %s", a.spec.ID, tag, ch, o)
	return fail
}

func (s *vspSched) actorOpts() (p, j bool) {
	s.mu.Lock()
	defer s.mu.Unlock()
	a := s.byGoid[vspGoid()]
	if a == nil {
		return false, false
	}
	return a.spec.P != 0, a.spec.J != 0
}

var vspBlockedStates = map[string]bool{
	"chan receive": true, "chan send": true, "select": true, "select (no cases)": true,
	"sync.Mutex.Lock": true, "sync.RWMutex.Lock": true, "sync.RWMutex.RLock": true, "semacquire": true,
	"sync.Cond.Wait": true, "sleep": true, "sync.WaitGroup.Wait": true, "IO wait": true,
	"chan receive (nil chan)": true, "chan send (nil chan)": true,
}

type vspGoInfo struct {
	state   string
	inClose bool
}

func vspGoroutines() map[int64]vspGoInfo {
	size := 1 << 18
	var buf []byte
	for {
		buf = make([]byte, size)
		n := runtime.Stack(buf, true)
		if n < size {
			buf = buf[:n]
			break
		}
		size *= 2
	}
	res := map[int64]vspGoInfo{}
	for _, blk := range bytes.Split(buf, []byte("\n\n")) {
		if !bytes.HasPrefix(blk, []byte("goroutine ")) {
			continue
		}
		nl := bytes.IndexByte(blk, '\n')
		hdr := blk
		if nl >= 0 {
			hdr = blk[:nl]
		}
		rest := hdr[len("goroutine "):]
		sp := bytes.IndexByte(rest, ' ')
		if sp < 0 {
			continue
		}
		id, err := strconv.ParseInt(string(rest[:sp]), 10, 64)
		if err != nil {
			continue
		}
		lb := bytes.IndexByte(rest, '[')
		rb := bytes.LastIndexByte(rest, ']')
		st := ""
		if lb >= 0 && rb > lb {
			st = string(rest[lb+1 : rb])
			if c := strings.IndexByte(st, ','); c >= 0 {
				st = st[:c]
			}
		}
		res[id] = vspGoInfo{state: st, inClose: bytes.Contains(blk, []byte("centrifuge.(*Client).close("))}
	}
	return res
}

// quiescent: every running actor goroutine and every goroutine inside (*Client).close is blocked.
// Returns (quiescent, someone blocked outside a gate, a close() goroutine still exists).
func (s *vspSched) quiescent() (bool, bool, bool) {
	gs := vspGoroutines()
	s.mu.Lock()
	defer s.mu.Unlock()
	blocked := false
	closeAlive := false
	tracked := map[int64]bool{}
	for _, a := range s.actors {
		tracked[a.goid] = true
		switch a.state {
		case vspRunning:
			gi, ok := gs[a.goid]
			if a.anon && !ok {
				a.state = vspDone // an auto-spawned close() goroutine that has returned
				continue
			}
			if a.goid == 0 || !ok {
				return false, false, false // starting or exiting: state will change
			}
			if !vspBlockedStates[gi.state] {
				return false, false, false
			}
			blocked = true
			if gi.inClose {
				closeAlive = true
			}
		case vspParked:
			if gi, ok := gs[a.goid]; ok && gi.inClose {
				closeAlive = true
			}
		}
	}
	for id, gi := range gs {
		if gi.inClose && !tracked[id] {
			closeAlive = true
			if !vspBlockedStates[gi.state] {
				return false, false, false
			}
			blocked = true
		}
	}
	return true, blocked, closeAlive
}

func (s *vspSched) waitQuiescent() (blocked bool, closeAlive bool, err error) {
	deadline := time.Now().Add(30 * time.Second)
	okCount := 0
	for {
		q, b, c := s.quiescent()
		if q {
			okCount++
			if okCount >= 2 {
				return b, c, nil
			}
			runtime.Gosched()
			continue
		}
		okCount = 0
		if time.Now().After(deadline) {
			return false, false, fmt.Errorf("no quiescence within 30s")
		}
		time.Sleep(20 * time.Microsecond)
	}
}

// ---------------------------------------------------------------------------------- wrappers

type vspBroker struct {
	inner *MemoryBroker
	s     *vspSched
	mu    sync.Mutex
	log   []string
}

func (b *vspBroker) RegisterBrokerEventHandler(h BrokerEventHandler) error {
	return b.inner.RegisterBrokerEventHandler(h)
}
func (b *vspBroker) Subscribe(chs ...string) error {
	for _, ch := range chs {
		if b.s.event("bsub", ch) {
			return fmt.Errorf("verif: injected broker subscribe failure")
		}
	}
	return b.inner.Subscribe(chs...)
}
func (b *vspBroker) Unsubscribe(chs ...string) error { return b.inner.Unsubscribe(chs...) }
func (b *vspBroker) Publish(ch string, data []byte, opts PublishOptions) (PublishResult, error) {
	return b.inner.Publish(ch, data, opts)
}
func (b *vspBroker) PublishJoin(ch string, info *ClientInfo) error {
	var err error
	b.s.gate("join", ch, false, func(bool) {
		b.mu.Lock()
		b.log = append(b.log, "J"+ch)
		b.mu.Unlock()
		err = b.inner.PublishJoin(ch, info)
	})
	return err
}
func (b *vspBroker) PublishLeave(ch string, info *ClientInfo) error {
	var err error
	b.s.gate("leave", ch, false, func(bool) {
		b.mu.Lock()
		b.log = append(b.log, "L"+ch)
		b.mu.Unlock()
		err = b.inner.PublishLeave(ch, info)
	})
	return err
}
func (b *vspBroker) History(ch string, opts HistoryOptions) ([]*Publication, StreamPosition, error) {
	return b.inner.History(ch, opts)
}
func (b *vspBroker) RemoveHistory(ch string) error { return b.inner.RemoveHistory(ch) }

type vspPresence struct {
	inner *MemoryPresenceManager
	s     *vspSched
}

func (p *vspPresence) Presence(ch string) (map[string]*ClientInfo, error) { return p.inner.Presence(ch) }
func (p *vspPresence) PresenceStats(ch string) (PresenceStats, error)     { return p.inner.PresenceStats(ch) }
func (p *vspPresence) AddPresence(ch string, clientID string, info *ClientInfo) error {
	var err error
	p.s.gate("presadd", ch, true, func(fail bool) {
		if fail {
			err = fmt.Errorf("verif: injected presence add failure")
			return
		}
		err = p.inner.AddPresence(ch, clientID, info)
	})
	return err
}
func (p *vspPresence) RemovePresence(ch string, clientID string, userID string) error {
	var err error
	p.s.gate("presrm", ch, false, func(bool) {
		err = p.inner.RemovePresence(ch, clientID, userID)
	})
	return err
}

type vspTransport struct {
	s      *vspSched
	mu     sync.Mutex
	data   []byte
	closed bool
}

func (t *vspTransport) Name() string                     { return "vsp" }
func (t *vspTransport) AcceptProtocol() string           { return "" }
func (t *vspTransport) Protocol() ProtocolType           { return ProtocolTypeJSON }
func (t *vspTransport) ProtocolVersion() ProtocolVersion { return ProtocolVersion2 }
func (t *vspTransport) Unidirectional() bool             { return false }
func (t *vspTransport) Emulation() bool                  { return false }
func (t *vspTransport) PingPongConfig() PingPongConfig {
	return PingPongConfig{PingInterval: time.Hour, PongTimeout: -1}
}
func (t *vspTransport) DisabledPushFlags() uint64 {
	pc, _, _, ok := runtime.Caller(1)
	if ok {
		name := runtime.FuncForPC(pc).Name()
		if strings.HasSuffix(name, "(*Client).close") || strings.HasSuffix(name, "(*Client).Subscribe") {
			t.s.gate("dpf", "", false, nil)
		}
	}
	return 0
}
func (t *vspTransport) Write(m []byte) error {
	t.mu.Lock()
	defer t.mu.Unlock()
	t.data = append(t.data, m...)
	t.data = append(t.data, '\n')
	return nil
}
func (t *vspTransport) WriteMany(ms ...[]byte) error {
	t.mu.Lock()
	defer t.mu.Unlock()
	for _, m := range ms {
		t.data = append(t.data, m...)
		t.data = append(t.data, '\n')
	}
	return nil
}
func (t *vspTransport) Close(Disconnect) error {
	t.s.gate("tclose", "", false, func(bool) {
		t.mu.Lock()
		t.closed = true
		t.mu.Unlock()
	})
	return nil
}
func (t *vspTransport) count(needle string) int {
	t.mu.Lock()
	defer t.mu.Unlock()
	return bytes.Count(t.data, []byte(needle))
}

// ---------------------------------------------------------------------------------- scenario

type vspEnv struct {
	s        *vspSched
	node     *Node
	client   *Client
	tr       *vspTransport
	broker   *vspBroker
	pres     *vspPresence
	chans    []string
	onUnsub  map[string]int
	onDisc   int
	cbMu     sync.Mutex
	holding  bool
	baseConn float64
	baseSub  float64
}

func vspGaugeSum(g *prometheus.GaugeVec) float64 {
	ch := make(chan prometheus.Metric, 64)
	go func() { g.Collect(ch); close(ch) }()
	var sum float64
	for m := range ch {
		var d dto.Metric
		if err := m.Write(&d); err == nil {
			sum += d.GetGauge().GetValue()
		}
	}
	return sum
}

func (e *vspEnv) obs() string {
	c := e.client
	var sb strings.Builder
	c.mu.RLock()
	st := int(c.status)
	type ent struct {
		gen   uint64
		flags uint16
		gate  bool
	}
	ents := map[string]ent{}
	extra := 0
	for ch, cc := range c.channels {
		ents[ch] = ent{cc.subGen, cc.flags, cc.subscribingCh != nil}
		known := false
		for _, k := range e.chans {
			if k == ch {
				known = true
			}
		}
		if !known {
			extra++
		}
	}
	c.mu.RUnlock()
	cs := e.node.hub.connShards[index(c.UserID(), numHubShards)]
	cs.mu.RLock()
	_, reg := cs.clients[c.uid]
	cs.mu.RUnlock()
	r := 0
	if reg {
		r = 1
	}
	fmt.Fprintf(&sb, "st=%d reg=%d cg=%d sg=%d", st, r, int(vspGaugeSum(e.node.metrics.connectionsInflight)-e.baseConn),
		int(vspGaugeSum(e.node.metrics.subscriptionsInflight)-e.baseSub))
	for _, ch := range e.chans {
		sb.WriteString(" " + ch + ":")
		if en, ok := ents[ch]; ok {
			fmt.Fprintf(&sb, "g%d", en.gen)
			if channelHasFlag(en.flags, flagSubscribed) {
				sb.WriteString("S")
				if channelHasFlag(en.flags, flagEmitPresence) {
					sb.WriteString("p")
				}
				if channelHasFlag(en.flags, flagEmitJoinLeave) {
					sb.WriteString("j")
				}
				if channelHasFlag(en.flags, flagServerSide) {
					sb.WriteString("v")
				}
			} else {
				sb.WriteString("R")
			}
			if en.gate {
				sb.WriteString("o")
			} else {
				sb.WriteString("n")
			}
		} else {
			sb.WriteString("-")
		}
		sh := e.node.hub.subShards[index(ch, numHubShards)]
		sh.mu.RLock()
		si, ok := sh.subs[ch][c.uid]
		sh.mu.RUnlock()
		if ok {
			fmt.Fprintf(&sb, ",h%d", si.subGen)
		} else {
			sb.WriteString(",h-")
		}
		pr, _ := e.pres.inner.Presence(ch)
		if _, ok := pr[c.uid]; ok {
			sb.WriteString(",p1")
		} else {
			sb.WriteString(",p0")
		}
	}
	e.broker.mu.Lock()
	sb.WriteString(" log=" + strings.Join(e.broker.log, ","))
	e.broker.mu.Unlock()
	if extra > 0 {
		fmt.Fprintf(&sb, " extrachans=%d", extra)
	}
	return sb.String()
}

func (e *vspEnv) runActor(a *vspActor) {
	s := e.s
	s.mu.Lock()
	a.goid = vspGoid()
	s.byGoid[a.goid] = a
	s.mu.Unlock()
	ret := "ok"
	func() {
		defer func() {
			if r := recover(); r != nil {
				ret = "PANIC"
			}
		}()
		c := e.client
		switch a.spec.Kind {
		case "csub":
			rw := &replyWriter{write: func(rep *protocol.Reply) {
				if rep.Error != nil {
					s.gate("replyerr", "", false, nil)
				} else {
					s.gate("reply", "", false, nil)
				}
			}}
			err := c.handleSubscribe(&protocol.SubscribeRequest{Channel: a.spec.Ch}, &protocol.Command{Id: 7}, time.Now(), rw)
			if err != nil {
				ret = "err"
			}
		case "ssub":
			err := c.Subscribe(a.spec.Ch, WithEmitPresence(a.spec.P != 0), WithEmitJoinLeave(a.spec.J != 0), WithPushJoinLeave(a.spec.J != 0))
			if err != nil {
				ret = "err"
			}
		case "cunsub":
			rw := &replyWriter{write: func(rep *protocol.Reply) {
				if rep.Error != nil {
					s.gate("replyerr", "", false, nil)
				} else {
					s.gate("reply", "", false, nil)
				}
			}}
			err := c.handleUnsubscribe(&protocol.UnsubscribeRequest{Channel: a.spec.Ch}, &protocol.Command{Id: 8}, time.Now(), rw)
			if err != nil {
				ret = "err"
			}
		case "sunsub":
			c.Unsubscribe(a.spec.Ch)
		case "close":
			_ = c.close(DisconnectForceNoReconnect)
		}
	}()
	s.mu.Lock()
	a.state = vspDone
	s.emit("done %s %s", a.spec.ID, ret)
	s.mu.Unlock()
}

func vspRunScenario(line string) (out string) {
	defer func() {
		if r := recover(); r != nil {
			out = fmt.Sprintf("HARNESS-ERROR panic %v", r)
		}
	}()
	if !strings.HasPrefix(line, "sched ") {
		return "bad-op"
	}
	var sc vspScenario
	if err := json.Unmarshal([]byte(line[len("sched "):]), &sc); err != nil {
		return "bad-op"
	}
	s := &vspSched{byGoid: map[int64]*vspActor{}, freeRun: true}
	e := &vspEnv{s: s, chans: sc.Chans, onUnsub: map[string]int{}}
	registry := prometheus.NewRegistry()
	node, err := New(Config{
		LogLevel: LogLevelInfo,
		LogHandler: func(entry LogEntry) {
			if entry.Message == "timeout waiting for subscribe to finish" {
				ch, _ := entry.Fields["channel"].(string)
				s.gate("tmolog", ch, false, nil)
			}
		},
		Metrics: MetricsConfig{RegistererGatherer: registry},
	})
	if err != nil {
		return "HARNESS-ERROR new node: " + err.Error()
	}
	e.node = node
	e.broker = &vspBroker{inner: node.broker.(*MemoryBroker), s: s}
	node.SetBroker(e.broker)
	e.pres = &vspPresence{inner: node.presenceManager.(*MemoryPresenceManager), s: s}
	node.SetPresenceManager(e.pres)
	node.OnConnecting(func(ctx context.Context, ev ConnectEvent) (ConnectReply, error) {
		return ConnectReply{Credentials: &Credentials{UserID: "u1"}}, nil
	})
	node.OnConnect(func(c *Client) {
		c.OnSubscribe(func(ev SubscribeEvent, cb SubscribeCallback) {
			p, j := s.actorOpts()
			s.mu.Lock()
			a := s.byGoid[vspGoid()]
			s.mu.Unlock()
			s.gate("onsub", ev.Channel, true, nil)
			var cerr error
			if a != nil && a.spec.Fail == "onsub" {
				cerr = ErrorPermissionDenied
			} else if a != nil && a.spec.Fail == "onsubdisc" {
				cerr = DisconnectInvalidToken
			}
			cb(SubscribeReply{Options: SubscribeOptions{EmitPresence: p, EmitJoinLeave: j, PushJoinLeave: j}}, cerr)
		})
		c.OnUnsubscribe(func(ev UnsubscribeEvent) {
			s.gate("onunsub", ev.Channel, false, func(bool) {
				e.cbMu.Lock()
				e.onUnsub[ev.Channel]++
				e.cbMu.Unlock()
			})
		})
		c.OnDisconnect(func(ev DisconnectEvent) {
			s.gate("ondisc", "", false, func(bool) {
				e.cbMu.Lock()
				e.onDisc++
				e.cbMu.Unlock()
			})
		})
	})
	if err := node.Run(); err != nil {
		return "HARNESS-ERROR run node: " + err.Error()
	}
	defer func() {
		s.mu.Lock()
		s.freeRun = true
		for _, a := range s.actors {
			if a.state == vspParked {
				select {
				case a.release <- struct{}{}:
				default:
				}
			}
		}
		s.mu.Unlock()
		if e.holding {
			e.client.connectMu.Unlock()
			e.holding = false
		}
		ctx, cancel := context.WithTimeout(context.Background(), 2*time.Second)
		_ = node.Shutdown(ctx)
		cancel()
	}()
	e.baseConn = vspGaugeSum(node.metrics.connectionsInflight)
	e.baseSub = vspGaugeSum(node.metrics.subscriptionsInflight)
	e.tr = &vspTransport{s: s}
	ctx, cancelFn := context.WithCancel(context.Background())
	defer cancelFn()
	client, _, err := NewClient(ctx, node, e.tr)
	if err != nil {
		return "HARNESS-ERROR new client: " + err.Error()
	}
	e.client = client
	// connect (free-run: gates pass straight through, nothing is recorded before the scenario starts)
	if err := client.connectCmd(&protocol.ConnectRequest{}, &protocol.Command{Id: 1}, time.Now(), &replyWriter{write: func(*protocol.Reply) {}}); err != nil {
		return "HARNESS-ERROR connect: " + err.Error()
	}
	client.triggerConnect()
	s.mu.Lock()
	s.trace = nil
	s.events = 0
	s.byGoid = map[int64]*vspActor{}
	s.actors = nil
	s.anonN = 0
	s.freeRun = false
	for _, sp := range sc.Actors {
		a := &vspActor{spec: sp, release: make(chan struct{}, 1)}
		s.actors = append(s.actors, a)
	}
	s.mu.Unlock()

	releasable := func() []*vspActor {
		s.mu.Lock()
		defer s.mu.Unlock()
		var r []*vspActor
		for _, a := range s.actors {
			if a.state == vspNotStarted || a.state == vspParked {
				r = append(r, a)
			}
		}
		return r
	}
	release := func(a *vspActor) {
		s.mu.Lock()
		if a.state == vspNotStarted {
			a.state = vspRunning
			pj := ""
			if a.spec.P != 0 {
				pj += "p"
			}
			if a.spec.J != 0 {
				pj += "j"
			}
			if pj == "" {
				pj = "-"
			}
			ch := a.spec.Ch
			if ch == "" {
				ch = "-"
			}
			s.emit("spawn %s %s %s %s", a.spec.ID, a.spec.Kind, ch, pj)
			s.mu.Unlock()
			go e.runActor(a)
			return
		}
		s.mu.Unlock()
		a.release <- struct{}{}
	}
	waitProgress := func() bool {
		s.mu.Lock()
		ev0 := s.events
		s.mu.Unlock()
		deadline := time.Now().Add(8 * time.Second)
		for time.Now().Before(deadline) {
			time.Sleep(2 * time.Millisecond)
			s.mu.Lock()
			ev := s.events
			s.mu.Unlock()
			if ev != ev0 {
				return true
			}
			if q, b, c := s.quiescent(); q && !b && !c {
				return true // nothing is blocked any more
			}
		}
		return false
	}
	allDone := func() bool {
		s.mu.Lock()
		defer s.mu.Unlock()
		for _, a := range s.actors {
			if a.state != vspDone && !a.anon {
				return false
			}
			if a.anon && a.state == vspParked {
				return false
			}
		}
		return true
	}
	step := func(entry string) error {
		blocked, closeAlive, err := s.waitQuiescent()
		if err != nil {
			return err
		}
		_ = closeAlive
		s.mu.Lock()
		s.emit("obs %s", e.obs())
		s.mu.Unlock()
		switch entry {
		case "H":
			if !e.holding {
				e.client.connectMu.Lock()
				e.holding = true
				s.mu.Lock()
				s.emit("hold")
				s.mu.Unlock()
			}
			return nil
		case "R":
			if e.holding {
				s.mu.Lock()
				s.emit("unhold")
				s.mu.Unlock()
				e.client.connectMu.Unlock()
				e.holding = false
			}
			return nil
		}
		rel := releasable()
		if entry == "T" || len(rel) == 0 {
			if blocked {
				if e.holding && len(rel) == 0 {
					// only the held lock can be blocking progress
					s.mu.Lock()
					s.emit("unhold")
					s.mu.Unlock()
					e.client.connectMu.Unlock()
					e.holding = false
					return nil
				}
				if !waitProgress() {
					return fmt.Errorf("blocked actors made no progress in 8s")
				}
			}
			return nil
		}
		i, perr := strconv.Atoi(entry)
		if perr != nil || i < 0 {
			i = 0
		}
		release(rel[i%len(rel)])
		return nil
	}
	for _, raw := range sc.Sched {
		entry := strings.Trim(string(raw), "\"")
		if err := step(entry); err != nil {
			return "HARNESS-ERROR " + err.Error()
		}
	}
	// drain
	for guard := 0; guard < 400; guard++ {
		_, closeAlive, err := s.waitQuiescent()
		if err != nil {
			return "HARNESS-ERROR " + err.Error()
		}
		if allDone() && !closeAlive && !e.holding {
			break
		}
		if err := step("0"); err != nil {
			return "HARNESS-ERROR " + err.Error()
		}
		if guard == 399 {
			return "HARNESS-ERROR drain did not terminate"
		}
	}
	// settled: observe, then marker publish per channel
	final := e.obs()
	s.mu.Lock()
	s.freeRun = true
	s.mu.Unlock()
	for _, ch := range e.chans {
		if _, err := node.Publish(ch, []byte(`{"m":"vspmark-`+ch+`"}`)); err != nil {
			return "HARNESS-ERROR publish: " + err.Error()
		}
	}
	client.mu.RLock()
	closed := client.status == statusClosed
	client.mu.RUnlock()
	if !closed {
		_ = client.Send([]byte(`{"m":"vspend"}`))
		deadline := time.Now().Add(10 * time.Second)
		for e.tr.count("vspend") == 0 {
			if time.Now().After(deadline) {
				return "HARNESS-ERROR sentinel not delivered"
			}
			time.Sleep(200 * time.Microsecond)
		}
	} else {
		time.Sleep(300 * time.Microsecond)
	}
	var recv []string
	var reported []string
	chset := client.ChannelsWithContext()
	for _, ch := range e.chans {
		recv = append(recv, fmt.Sprintf("%s:%d", ch, e.tr.count(`vspmark-`+ch+`"`)))
		if _, ok := chset[ch]; ok {
			reported = append(reported, ch)
		}
	}
	sort.Strings(reported)
	// C05 extras: users map, sessions, total hub counters, any presence entry of this client
	cs := node.hub.connShards[index(client.UserID(), numHubShards)]
	cs.mu.RLock()
	_, userReg := cs.users[client.UserID()]
	cs.mu.RUnlock()
	node.hub.sessionsMu.RLock()
	nsess := len(node.hub.sessions)
	node.hub.sessionsMu.RUnlock()
	e.cbMu.Lock()
	var unsubs []string
	for _, ch := range e.chans {
		unsubs = append(unsubs, fmt.Sprintf("%s:%d", ch, e.onUnsub[ch]))
	}
	ondisc := e.onDisc
	e.cbMu.Unlock()
	client.mu.RLock()
	nch := len(client.channels)
	client.mu.RUnlock()
	s.mu.Lock()
	s.emit("final %s | recv=%s reported=%s users=%v sessions=%d numclients=%d numsubs=%d nchan=%d onunsub=%s ondisc=%d keyed=%v",
		final, strings.Join(recv, ","), strings.Join(reported, ","), userReg, nsess, node.hub.NumClients(),
		node.hub.NumSubscriptions(), nch, strings.Join(unsubs, ","), ondisc, client.keyed != nil)
	res := strings.Join(s.trace, ";")
	s.mu.Unlock()
	return res
}

func TestVerifSubProto(t *testing.T) {
	in, err := os.Open(os.Getenv("VERIF_OPS"))
	if err != nil {
		t.Skip("no VERIF_OPS")
	}
	defer in.Close()
	out, err := os.Create(os.Getenv("VERIF_OUT"))
	if err != nil {
		t.Fatal(err)
	}
	defer out.Close()
	w := bufio.NewWriter(out)
	defer w.Flush()
	sc := bufio.NewScanner(in)
	sc.Buffer(make([]byte, 1<<20), 1<<26)
	for sc.Scan() {
		line := sc.Text()
		if line == "" || strings.HasPrefix(line, "#") {
			fmt.Fprintln(w, "#")
			continue
		}
		fmt.Fprintln(w, vspRunScenario(line))
		w.Flush()
	}
}
