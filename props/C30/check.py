"""C30 — WebSocket messages round-trip through writer and reader.

Proof: lean/CentrifugeVerif/Props/C30.lean (Model/WS/Writer.lean, Spec/WSSpec.lean).
Tie: a real Conn writes generated message sequences (WriteMessage, NextWriter in pieces, WriteString, ReadFrom,
prepared messages, WriteControl; server and client side; buffer sizes; compression levels) into a capturing
connection; a second real Conn of the opposite side reads the captured bytes.  The Lean writer model is run on the
same operations (with the mask keys found on the wire and, for compressed messages, the chunks that reached the
message writer) and must produce the same wire bytes; the Lean specification decodes the wire.
Oracle: the statement — the independent reference decoder (props/C29/wsref.py, strict RFC rules: masking by side,
control frames <= 125, fragmentation rules) applied to the wire returns exactly the written messages in order, and
so does the real peer.  Also differential: truncWriter for random chunkings, maskBytes at all alignments.
"""
import json
import os
import sys

HERE = os.path.dirname(os.path.abspath(__file__))
sys.path.insert(0, os.path.join(os.path.dirname(HERE), "C29"))
import wsref  # noqa: E402
from wsref import ref_decode, hx  # noqa: E402

HARNESS = "props/C30/harness/internal__websocket/zz_verif_c30_test.go"
TEST = "TestVerifC30"


# ----------------------------------------------------------------------------------------- generator
def rnd_bytes(rng, n):
    k = rng.random()
    if k < 0.35:
        return bytes(rng.randrange(256) for _ in range(n))
    if k < 0.7:
        return bytes(rng.choice(b"abcdefgh {}\":,0123") for _ in range(n))
    return (b"centrifuge-" * (n // 11 + 1))[:n]


def split_pieces(rng, data):
    k = rng.choice([1, 1, 2, 3, 5])
    cuts = sorted(rng.randint(0, len(data)) for _ in range(k - 1))
    return [data[a:b] for a, b in zip([0] + cuts, cuts + [len(data)])]


def gen_wr(rng):
    side = rng.choice("sc")
    comp = int(rng.random() < 0.4)
    level = rng.choice([-2, -1, 0, 1, 1, 6, 9])
    ewc = 0 if rng.random() < 0.15 else 1
    wbuf = rng.choice([1, 2, 3, 4, 16, 100, 125, 126, 127, 512, 0, 0])
    B = wbuf if wbuf > 0 else 4096
    ops = []
    for _ in range(rng.choice([1, 1, 2, 3, 5])):
        k = rng.random()
        if k < 0.75:
            typ = rng.choice([1, 2])
            r = rng.random()
            if r < 0.1:
                n = 0
            elif r < 0.55:
                n = rng.choice([B - 1, B, B + 1, 2 * B - 1, 2 * B, 2 * B + 1, 3 * B, 2 * (B + 14) - 1, 2 * (B + 14),
                                2 * (B + 14) + 1, 2 * (B + 14) + 7, 125, 126, 127])
            elif r < 0.97:
                n = rng.randint(1, 300)
            else:
                n = rng.choice([65535, 65536, 65537])
            n = max(0, min(n, 70000, 600 * B))  # at most ~600 frames per message (the list model is quadratic)
            data = rnd_bytes(rng, n)
            api = rng.choice(["wm", "wm", "nw", "nw", "ns", "rf", "pm"])
        elif k < 0.93:
            typ = rng.choice([9, 10])
            data = rnd_bytes(rng, rng.choice([0, 1, 4, 124, 125, 125, 126, 130]))
            api = rng.choice(["wm", "wc", "wc", "nw", "pm", "rf", "ns"])
        elif k < 0.98:
            typ = 8
            data = b"" if rng.random() < 0.3 else \
                rng.choice([1000, 1001, 1011, 3000, 4999]).to_bytes(2, "big") + rng.choice([b"", b"bye", "κόσμε".encode()])
            api = rng.choice(["wm", "wc", "wc", "nw", "pm"])
        else:
            typ = rng.choice([0, 3, 7, 11, 15])
            data = b"xy"
            api = rng.choice(["wm", "wc", "nw", "pm"])
        pieces = split_pieces(rng, data) if api in ("nw", "ns") else [data]
        ops.append("%s:%d:%s" % (api, typ, "/".join(hx(p) for p in pieces)))
    return "wr side=%s comp=%d level=%d ewc=%d wbuf=%d pool=%d rchunk=%d ops=%s" % (
        side, comp, level, ewc, wbuf, int(rng.random() < 0.3), rng.choice([0, 0, 1, 3, 100]), ";".join(ops))


def gen_pool(rng):
    wbuf = rng.choice([4, 16, 100, 512, 0])
    B = wbuf or 4096
    msgs = []
    for _ in range(rng.choice([1, 1, 2, 3])):
        n = rng.choice([0, 1, B - 1, B, B + 1, 2 * B + 3, rng.randint(1, 200)])
        msgs.append("%d:%s" % (rng.choice([1, 2]), hx(rnd_bytes(rng, min(n, 5000)))))
    nb = rng.choice([1, B, B + 5, rng.randint(1, 200)])
    return "pool side=%s comp=%d wbuf=%d a=%s b=%d:%s" % (
        rng.choice("sc"), int(rng.random() < 0.3), wbuf, ";".join(msgs), rng.choice([1, 2]),
        hx(bytes((i * 7 + 1) & 0xff for i in range(min(nb, 5000)))))


def oracle_pool(op, out):
    """Each peer receives exactly what its own endpoint wrote, although the endpoints share a write buffer pool
    and B writes while A's socket writes are in flight."""
    if out.startswith("PANIC") or out == "<missing>":
        return "writer panicked", {"kind": "panic", "op": "pool"}
    kv, okv = kvs(op), kvs(out)
    if "ra" not in okv:
        return "unparseable output " + out[:80], {"kind": "output"}
    exp_a = ["m%s:%s" % tuple(m.split(":")) for m in kv["a"].split(";") if m] + ["eof"]
    bt, bd = kv["b"].split(":")
    exp_b = ["m%s:%s" % (bt, bd)] * int(okv.get("nb", "0")) + ["eof"]
    if okv.get("berr") != "ok" or any(e != "ok" for e in okv.get("errs", "").split(",")):
        return "a write failed: errs=%s berr=%s" % (okv.get("errs"), okv.get("berr")), {"kind": "pool-write-result"}
    if okv["ra"].split(",") != exp_a:
        return ("connection A's peer read %s, A wrote %s (B wrote into the shared buffer while A's write was in "
                "flight)" % ([e[:30] for e in okv["ra"].split(",")], [e[:30] for e in exp_a]),
                {"kind": "pool-crosstalk", "conn": "A"})
    if okv["rb"].split(",") != exp_b:
        return ("connection B's peer read %s, B wrote %s" % ([e[:30] for e in okv["rb"].split(",")][:4],
                                                             [e[:30] for e in exp_b][:4]),
                {"kind": "pool-crosstalk", "conn": "B"})
    for side_wire in ("wa", "wb"):
        peer = {"server": kv["side"] == "c", "comp": kv["comp"] == "1", "rl": 0, "dl": 0}
        R = ref_decode(peer, unhex(okv[side_wire]), quirks=False, trust_zlib=True)
        if R.events != (exp_a if side_wire == "wa" else exp_b):
            return "the bytes of %s do not decode to what was written (rule %s)" % (side_wire, R.rule), \
                {"kind": "pool-wire", "rule": R.rule}
    return None


def gen_tw(rng):
    n = rng.choice([0, 1, 2, 3, 5, 8])
    chunks = [rnd_bytes(rng, rng.choice([0, 1, 1, 2, 3, 4, 5, 7, 8, 9, 20])) for _ in range(n)]
    return "tw chunks=" + "/".join(hx(c) for c in chunks)


def gen_mask(rng):
    n = rng.choice([0, 1, 3, 7, 8, 15, 16, 17, 23, 24, 25, 31, 32, 33, rng.randint(0, 100), rng.randint(0, 100)])
    return "mask key=%s pos=%d align=%d data=%s" % (bytes(rng.randrange(256) for _ in range(4)).hex(),
                                                     rng.randint(0, 7), rng.randint(0, 7), hx(rnd_bytes(rng, n)))


# ----------------------------------------------------------------------------------------- helpers
def kvs(line):
    return dict(w.split("=", 1) for w in line.split() if "=" in w)


def unhex(s):
    return b"" if s in ("-", "") else bytes.fromhex(s)


def parse_ops(kv):
    out = []
    for o in kv["ops"].split(";"):
        if not o:
            continue
        api, typ, rest = o.split(":")
        out.append((api, int(typ), [unhex(x) for x in rest.split("/")]))
    return out


def wire_keys(wire):
    """mask keys of the frames on the wire, in order (as far as the frames parse)"""
    keys, i = [], 0
    while i + 2 <= len(wire):
        b1 = wire[i + 1]
        n, j = b1 & 0x7f, i + 2
        if n == 126:
            n = int.from_bytes(wire[j:j + 2], "big")
            j += 2
        elif n == 127:
            n = int.from_bytes(wire[j:j + 8], "big")
            j += 8
        if b1 & 0x80:
            keys.append(wire[j:j + 4])
            j += 4
        i = j + n
    return keys


def expected_events(kv, errs):
    """What the peer has to read, from the operations and the write results (statement level).
    Returns (events, problem)."""
    ops = parse_ops(kv)
    ev, closed = [], False
    if len(errs) != len(ops):
        return None, "number of write results differs from number of operations"
    for (api, typ, pieces), e in zip(ops, errs):
        data = b"".join(pieces)
        if typ not in (1, 2, 8, 9, 10):
            if e == "ok":
                return None, "write of message type %d accepted" % typ
            continue
        if closed:
            if e == "ok":
                return None, "write accepted after a close message was sent"
            continue
        if typ in (1, 2):
            if e != "ok":
                return None, "data message write failed: " + e
            ev.append("m%d:%s" % (typ, hx(data)))
            continue
        if len(data) > 125:
            if e == "ok":
                return None, "control message with %d bytes accepted" % len(data)
            continue
        if e != "ok":
            continue  # a control message may be refused (e.g. it does not fit the write buffer of NextWriter)
        if typ == 9:
            ev.append("pi:" + hx(data))
        elif typ == 10:
            ev.append("po:" + hx(data))
        else:
            closed = True
            if len(data) == 0:
                ev.append("cl:1005:-")
            else:
                ev.append("cl:%d:%s" % (data[0] * 256 + data[1], hx(data[2:])))
    if not closed:
        ev.append("eof")
    return ev, None


def oracle_wr(op, out):
    if out.startswith("PANIC") or out == "<missing>":
        return "writer or reader panicked", {"kind": "panic"}
    kv, okv = kvs(op), kvs(out)
    if "wire" not in okv:
        return "unparseable output " + out[:80], {"kind": "output"}
    wire = unhex(okv["wire"])
    errs = okv["errs"].split(",") if okv.get("errs", "-") != "-" else []
    exp, problem = expected_events(kv, errs)
    if problem:
        return problem, {"kind": "write-result", "what": problem.split(":")[0][:40]}
    peer = {"server": kv["side"] == "c", "comp": kv["comp"] == "1", "rl": 0, "dl": 0}
    R = ref_decode(peer, wire, quirks=False, trust_zlib=True)
    if R.events != exp:
        k = 0
        while k < len(exp) and k < len(R.events) and exp[k] == R.events[k]:
            k += 1
        got = (R.events[k] if k < len(R.events) else "-").split(":")[0]
        return ("the bytes on the wire decode to %s (ended by rule %s), written: %s" % (
            [e[:40] for e in R.events], R.rule, [e[:40] for e in exp]),
            {"kind": "wire", "rule": R.rule if got in ("proto", "eof", "baddata", "toobig") else "content", "got": got})
    rd = okv.get("rd", "").split(",")
    if rd != exp:
        k = 0
        while k < len(exp) and k < len(rd) and exp[k] == rd[k]:
            k += 1
        got = (rd[k] if k < len(rd) else "-").split(":")[0]
        return ("the peer read %s, written: %s" % ([e[:40] for e in rd], [e[:40] for e in exp]),
                {"kind": "peer-read", "got": got})
    for f in R.frames:
        if f[0] in (8, 9, 10) and f[4] > 125:
            return "control frame longer than 125 bytes on the wire", {"kind": "wire", "rule": "control-long"}
        if f[3] != (kv["side"] == "c"):
            return "frame with wrong masking on the wire", {"kind": "wire", "rule": "mask"}
        if f[2] and not (kv["comp"] == "1" and f[0] in (1, 2)):
            return "RSV1 on a frame that is not the first frame of a compressed data message", \
                {"kind": "wire", "rule": "rsv1"}
    return None


def model_line(op, out):
    """The `wr` line for the Lean writer model (None when this case cannot be predicted: prepared+compressed)."""
    kv, okv = kvs(op), kvs(out)
    if "wire" not in okv:
        return None
    wire = unhex(okv["wire"])
    comp = kv["comp"] == "1" and kv["ewc"] == "1"
    spies = okv.get("spy", "-").split(",")
    mops = []
    for idx, (api, typ, pieces) in enumerate(parse_ops(kv)):
        data = b"".join(pieces)
        compressed = comp and typ in (1, 2)
        spy = spies[idx] if idx < len(spies) else "-"
        if api == "wc":
            mops.append("wc:%d:%s" % (typ, hx(data)))
        elif api == "pm":
            if compressed:
                return None
            mops.append("pm:%d:%s" % (typ, hx(data)))
        elif compressed:
            mops.append("st:%d:c:%s" % (typ, "" if spy == "-" else spy))
        elif api == "wm":
            mops.append("wm:%d:%s" % (typ, hx(data)))
        elif api == "rf":
            mops.append("rf:%d:%s" % (typ, hx(data)))
        else:
            mops.append("st:%d:%s:%s" % (typ, "s" if api == "ns" else "u", "/".join(hx(p) for p in pieces)))
    keys = b"".join(wire_keys(wire)) if kv["side"] == "c" else b""
    wbuf = int(kv["wbuf"]) or 4096
    return "wr side=%s wbuf=%d comp=%d keys=%s ops=%s" % (kv["side"], wbuf, int(comp), hx(keys), ";".join(mops))


def spec_line(op, out):
    kv, okv = kvs(op), kvs(out)
    wire = unhex(okv.get("wire", "-"))
    peer = {"server": kv["side"] == "c", "comp": kv["comp"] == "1", "rl": 0, "dl": 0}
    R = ref_decode(peer, wire, quirks=True, trust_zlib=True)
    inf = ",".join("%s:%s" % (k.hex(), "!" if v is None else hx(v)) for k, v in R.inf.items()) or "-"
    return "rd side=%s comp=%s rl=0 dl=0 h=1 data=%s inf=%s" % ("s" if peer["server"] else "c", kv["comp"], hx(wire), inf)


def oracle_tw(op, out):
    chunks = [unhex(x) for x in kvs(op).get("chunks", "").split("/")] if kvs(op).get("chunks") else []
    okv = kvs(out)
    if "held" not in okv:
        return "unparseable output " + out[:60], {"kind": "tw-output"}
    total = b"".join(chunks)
    outs = b"".join(unhex(x) for x in okv.get("out", "").split("/")) if okv.get("out") else b""
    held = unhex(okv["held"])
    if outs + held != total or len(held) != min(4, len(total)):
        return ("truncWriter passed %s and holds %s for the stream %s" % (outs.hex(), held.hex(), total.hex()),
                {"kind": "truncwriter"})
    return None


def oracle_mask(op, out):
    kv, okv = kvs(op), kvs(out)
    key, data, pos = unhex(kv["key"]), unhex(kv["data"]), int(kv["pos"])
    want = bytes(b ^ key[(pos + i) & 3] for i, b in enumerate(data))
    if "out" not in okv or unhex(okv["out"]) != want or int(okv.get("pos", -1)) != (pos + len(data)) & 3:
        return "maskBytes result differs from byte-wise masking", {"kind": "mask", "len>=16": len(data) >= 16}
    return None


def oracle(op, out):
    if op.startswith("wr "):
        return oracle_wr(op, out)
    if op.startswith("pool "):
        return oracle_pool(op, out)
    if op.startswith("tw "):
        return oracle_tw(op, out)
    if op.startswith("mask "):
        return oracle_mask(op, out)
    return None


def shrink_wr(ctx, binary, op, sig):
    from vlib.core import ddmin
    kv = kvs(op)
    ops = [o for o in kv["ops"].split(";") if o]

    def mk(os_):
        return " ".join(("ops=" + ";".join(os_)) if w.startswith("ops=") else w for w in op.split())

    def fails(os_):
        o = mk(os_)
        out = ctx.go_run(binary, TEST, [o])
        r = oracle(o, out[0] if out else "<missing>")
        return r is not None and r[1] == sig
    try:
        if len(ops) > 1 and fails(ops):
            ops = ddmin(ops, fails)
    except Exception:
        pass
    return mk(ops)


def run(ctx):
    ctx.rule = ("write scripts: 1-5 operations per connection over WriteMessage / NextWriter with 1-5 Write or "
                "WriteString pieces / ReadFrom / prepared messages / WriteControl; text, binary, ping, pong, close and "
                "invalid types; sizes 0, around the write buffer (B-1..3B, 2(B+14)±1), 125/126/127, 65535..65537; "
                "write buffers 1..4096; server and client side; compression on/off with levels -2..9 and "
                "EnableWriteCompression on/off; reader transport chunking; plus truncWriter chunkings and maskBytes at "
                "alignments 0..7, positions 0..7, lengths 0..100; non-trivial = at least one frame on the wire / "
                "non-empty input; distinct = distinct op line")
    ctx.assumptions = [
        "flate is not modelled: for compressed messages the model is given the chunks that reached the message "
        "writer (recorded by a spy below the compressor) and zlib inflates the wire payload for the oracle",
        "mask keys are random: the model is given the keys found on the wire",
        "prepared compressed messages are checked by the oracle only (their chunking happens inside a fake connection)",
        "single writer goroutine; no write deadlines; no write buffer pool"]
    proofs_ok = ctx.lean_obligations()
    binary = ctx.go_test_binary("internal/websocket", [HARNESS])
    if binary is None:
        ctx.violation("correspondence", "harness no longer builds against internal/websocket",
                      signature={"kind": "harness-build"}, replay={"log": getattr(ctx, "build_error", "")},
                      no_input=True)
        return
    if ctx.replay:
        ops = json.load(open(ctx.replay)).get("ops", [])
    else:
        corpus = [l.strip() for l in open(os.path.join(HERE, "corpus.ops")) if l.strip() and not l.startswith("#")]
        n = ctx.scale(2500, 30000)
        ops = corpus + [gen_wr(ctx.rng) for _ in range(n)] + [gen_pool(ctx.rng) for _ in range(n // 5)] + \
            [gen_tw(ctx.rng) for _ in range(n // 3)] + \
            [gen_mask(ctx.rng) for _ in range(n // 3)]
    ctx.log("generated", len(ops), "ops")
    impl = ctx.go_run(binary, TEST, ops)
    if ctx.last_go_crash:
        ctx.notes.append("go harness: " + str(ctx.last_go_crash)[-300:])
    # second pass: Lean model of the writer on the same operations + Lean specification on the wire
    lean_ops, index = [], []
    for i, op in enumerate(ops):
        out = impl[i] if i < len(impl) else "<missing>"
        if op.startswith("wr "):
            ml = model_line(op, out) if "wire=" in out else None
            if ml is not None:
                lean_ops.append(ml)
                index.append((i, "model"))
            if "wire=" in out:
                lean_ops.append(spec_line(op, out))
                index.append((i, "spec"))
        elif not op.startswith("pool "):
            lean_ops.append(op)
            index.append((i, "same"))
    lean_out = ctx.lean_run(lean_ops)
    if lean_out is None:
        proofs_ok = False
        lean_out = []
    by_case = {}
    for (i, kind), lo in zip(index, lean_out):
        by_case.setdefault(i, {})[kind] = lo
    ctx.log("model and implementation ran")
    nviol = ncorr = 0
    for i, op in enumerate(ops):
        out = impl[i] if i < len(impl) else "<missing>"
        kind = op.split()[0]
        okv = kvs(out)
        ctx.record(op, nontrivial=(okv.get("wire", "-") != "-") if kind == "wr" else len(op.split("=")[-1]) > 1)
        ctx.count("op:" + kind)
        if kind == "wr":
            kv = kvs(op)
            ctx.count("side:" + kv["side"] + ("+deflate" if kv["comp"] == "1" else ""))
            for o in kv["ops"].split(";"):
                if o:
                    ctx.count("api:" + o.split(":")[0] + ":" + ("data" if o.split(":")[1] in ("1", "2") else "ctl"))
            for e in okv.get("errs", "").split(","):
                ctx.count("result:" + e.split(":")[0])
        res = oracle(op, out)
        if res:
            msg, sig = res
            nviol += 1
            if nviol <= 20:
                small = shrink_wr(ctx, binary, op, sig) if (kind == "wr" and not ctx.replay) else op
                sout = ctx.go_run(binary, TEST, [small])
                r2 = oracle(small, sout[0] if sout else "<missing>")
                if r2 is None or r2[1] != sig:
                    small, sout, r2 = op, [out], res
                ctx.violation("property", r2[0], signature=r2[1], replay={"ops": [small], "impl": sout,
                                                                          "original_op": op})
            continue
        lo = by_case.get(i, {})
        diff = None
        if kind == "wr":
            if "model" in lo:
                mk = kvs(lo["model"])
                if mk.get("wire") != okv.get("wire") or mk.get("errs") != okv.get("errs"):
                    diff = "writer model and implementation differ: impl wire=%s errs=%s, model `%s`" % (
                        okv.get("wire", "")[:200], okv.get("errs"), lo["model"][:260])
                ctx.count("model-compared")
            if diff is None and "spec" in lo:
                sp = lo["spec"].split(" S ")[-1].split(" Q ")[0]
                sev = kvs(sp).get("ev", "-")
                if sev != okv.get("rd"):
                    diff = "Lean specification decodes the wire to %s, the peer read %s" % (sev[:200], okv.get("rd", "")[:200])
        elif kind == "pool":
            pass  # oracle only: buffer ownership between connections is outside the Lean model
        elif "same" in lo:
            a = " ".join(w for w in out.split())
            b = " ".join(w for w in lo["same"].split() if not w.startswith("same="))
            if a != b or "same=0" in lo["same"]:
                diff = "model `%s` implementation `%s`" % (lo["same"][:200], out[:200])
        else:
            diff = "no model output"
        if diff and lean_out:
            ncorr += 1
            if ncorr <= 3:
                ctx.violation("correspondence", diff, signature={"kind": "diff", "op": kind},
                              replay={"ops": [op], "impl": [out], "model": lo}, no_input=True)
    ctx.traces_validated = len(ops)
    ctx.extra["property_failures"] = nviol
    ctx.extra["disagreements"] = ncorr
    if not proofs_ok:
        ctx.proof_broken()
