//go:build verif

package websocket

// Verification harness for C30 (injected with `go test -overlay`, never part of the repo).
//
//   wr side=s|c comp=0|1 level=N ewc=0|1 wbuf=N rchunk=N ops=<op>;<op>;…
//     op = wm:<typ>:<hex>             WriteMessage
//          nw:<typ>:<hex>/<hex>/…     NextWriter, Write of each piece, Close
//          ns:<typ>:<hex>/<hex>/…     NextWriter, io.WriteString of each piece (WriteString path), Close
//          rf:<typ>:<hex>             NextWriter, ReadFrom(bytes.Reader) (io.Copy path), Close
//          pm:<typ>:<hex>             NewPreparedMessage + WritePreparedMessage
//          wc:<typ>:<hex>             WriteControl
//   A real Conn of the given side writes into a capturing net.Conn; a second real Conn of the opposite side
//   (same negotiated compression) then reads the captured bytes with ReadMessage until an error.
//   Output: wire=<hex> errs=<per op: ok|…> spy=<per op: sizes of the Writes that reached the message writer
//   below the compressor, or -> rd=<events of the reading peer> rw=<frames the reader wrote back>
//
//   pool side=s|c comp=0|1 wbuf=N a=<typ>:<hex>;<typ>:<hex>;… b=<typ>:<hex>
//     Two connections A and B share one WriteBufferPool.  A writes its messages with WriteMessage; every time
//     A's net.Conn receives a Write (i.e. while that socket write is "in flight", before the bytes have left A's
//     buffer) B writes its message completely.  Each capture is then read by a real peer.
//     Output: wa=<hex> wb=<hex> nb=<number of B messages> ra=<events A's peer read> rb=<events B's peer read>
//
//   tw chunks=<hex>/<hex>/…   the real truncWriter over a recording writer → out=<hex>/… held=<hex>
//   mask key=<hex> pos=N align=N data=<hex>   the real maskBytes on a slice starting `align` bytes past an
//     8-byte boundary → out=<hex> pos=N

import (
	"bufio"
	"bytes"
	"encoding/hex"
	"errors"
	"fmt"
	"io"
	"net"
	"os"
	"strconv"
	"strings"
	"testing"
	"time"
	"unsafe"
)

type verifC30Conn struct {
	data  []byte
	pos   int
	chunk int
	w     bytes.Buffer
	// called at the start of every Write, before the bytes are captured
	onWrite func()
}

// verifC30Pool is a deterministic LIFO BufferPool.
type verifC30Pool struct{ items []interface{} }

func (p *verifC30Pool) Get() interface{} {
	if len(p.items) == 0 {
		return nil
	}
	v := p.items[len(p.items)-1]
	p.items = p.items[:len(p.items)-1]
	return v
}
func (p *verifC30Pool) Put(v interface{}) { p.items = append(p.items, v) }

func (c *verifC30Conn) Read(p []byte) (int, error) {
	if c.pos >= len(c.data) {
		return 0, io.EOF
	}
	n := len(c.data) - c.pos
	if n > len(p) {
		n = len(p)
	}
	if c.chunk > 0 && n > c.chunk {
		n = c.chunk
	}
	copy(p, c.data[c.pos:c.pos+n])
	c.pos += n
	return n, nil
}
func (c *verifC30Conn) Write(p []byte) (int, error) {
	if c.onWrite != nil {
		c.onWrite() // something else happens while this write is in flight; p is captured afterwards
	}
	return c.w.Write(p)
}
func (c *verifC30Conn) Close() error                       { return nil }
func (c *verifC30Conn) LocalAddr() net.Addr                { return nil }
func (c *verifC30Conn) RemoteAddr() net.Addr               { return nil }
func (c *verifC30Conn) SetDeadline(_ time.Time) error      { return nil }
func (c *verifC30Conn) SetReadDeadline(_ time.Time) error  { return nil }
func (c *verifC30Conn) SetWriteDeadline(_ time.Time) error { return nil }

func verifC30Hex(b []byte) string {
	if len(b) == 0 {
		return "-"
	}
	return hex.EncodeToString(b)
}

func verifC30Unhex(s string) ([]byte, bool) {
	if s == "-" || s == "" {
		return []byte{}, true
	}
	b, err := hex.DecodeString(s)
	return b, err == nil
}

func verifC30Chunks(s string) ([][]byte, bool) {
	var out [][]byte
	if s == "" {
		return out, true
	}
	for _, h := range strings.Split(s, "/") {
		b, ok := verifC30Unhex(h)
		if !ok {
			return nil, false
		}
		out = append(out, b)
	}
	return out, true
}

// verifC30Spy records the Writes reaching the message writer below the compressor.
type verifC30Spy struct {
	w     io.WriteCloser
	sizes *[]string
}

func (s *verifC30Spy) Write(p []byte) (int, error) {
	*s.sizes = append(*s.sizes, verifC30Hex(p))
	return s.w.Write(p)
}
func (s *verifC30Spy) Close() error { return s.w.Close() }

func verifC30Err(err error) string {
	switch {
	case err == nil:
		return "ok"
	case err == errBadWriteOpCode:
		return "badop"
	case err == errInvalidControlFrame:
		return "invalidcontrol"
	case errors.Is(err, ErrCloseSent):
		return "closesent"
	case err == errWriteClosed:
		return "writeclosed"
	case strings.Contains(err.Error(), "unexpected bytes at end of flate stream"):
		return "flatetail"
	case strings.Contains(err.Error(), "internal error"):
		return "internal"
	}
	return "other:" + strings.ReplaceAll(err.Error(), " ", "_")
}

func verifC30ReadErr(err error) string {
	var ce *CloseError
	switch {
	case err == errUnexpectedEOF:
		return "eof"
	case errors.As(err, &ce):
		return fmt.Sprintf("cl:%d:%s", ce.Code, verifC30Hex([]byte(ce.Text)))
	case err == ErrReadLimit:
		return "toobig"
	case err == io.EOF:
		return "eofraw"
	case strings.HasPrefix(err.Error(), "websocket: "):
		return "proto"
	}
	return "baddata"
}

type verifC30StringWriter interface {
	WriteString(string) (int, error)
}

func verifC30Wr(kv map[string]string) string {
	num := func(k string) int {
		n, _ := strconv.Atoi(kv[k])
		return n
	}
	isServer := kv["side"] == "s"
	comp := kv["comp"] == "1"
	nc := &verifC30Conn{}
	var wpool BufferPool
	if kv["pool"] == "1" {
		wpool = &verifC30Pool{}
	}
	c := newConn(nc, isServer, 0, num("wbuf"), wpool, nil, nil)
	var spyCur []string
	if comp {
		c.newDecompressionReader = decompressNoContextTakeover
		c.newCompressionWriter = func(w io.WriteCloser, level int) io.WriteCloser {
			return compressNoContextTakeover(&verifC30Spy{w: w, sizes: &spyCur}, level)
		}
		if err := c.SetCompressionLevel(num("level")); err != nil {
			return "bad-op"
		}
	}
	if kv["ewc"] == "0" {
		c.EnableWriteCompression(false)
	}
	var errs, spies []string
	for _, op := range strings.Split(kv["ops"], ";") {
		if op == "" {
			continue
		}
		f := strings.Split(op, ":")
		if len(f) != 3 {
			return "bad-op"
		}
		typ, _ := strconv.Atoi(f[1])
		pieces, ok := verifC30Chunks(f[2])
		if !ok {
			return "bad-op"
		}
		var whole []byte
		for _, p := range pieces {
			whole = append(whole, p...)
		}
		spyCur = nil
		var err error
		switch f[0] {
		case "wm":
			err = c.WriteMessage(typ, whole)
		case "nw", "ns", "rf":
			var w io.WriteCloser
			w, err = c.NextWriter(typ)
			if err == nil {
				switch f[0] {
				case "nw":
					for _, p := range pieces {
						if _, err = w.Write(p); err != nil {
							break
						}
					}
				case "ns":
					for _, p := range pieces {
						if sw, ok := w.(verifC30StringWriter); ok {
							_, err = sw.WriteString(string(p))
						} else {
							_, err = io.WriteString(w, string(p))
						}
						if err != nil {
							break
						}
					}
				case "rf":
					// hide bytes.Reader's WriteTo so that io.Copy takes the ReadFrom path of the message writer
					_, err = io.Copy(w, struct{ io.Reader }{bytes.NewReader(whole)})
				}
				if err == nil {
					err = w.Close()
				}
			}
		case "pm":
			var pm *PreparedMessage
			pm, err = NewPreparedMessage(typ, whole)
			if err == nil {
				err = c.WritePreparedMessage(pm)
			}
		case "wc":
			err = c.WriteControl(typ, whole, time.Now().Add(time.Hour))
		default:
			return "bad-op"
		}
		errs = append(errs, verifC30Err(err))
		if len(spyCur) == 0 {
			spies = append(spies, "-")
		} else {
			spies = append(spies, strings.Join(spyCur, "/"))
		}
	}
	wire := append([]byte(nil), nc.w.Bytes()...)
	// the peer
	pc := &verifC30Conn{data: wire, chunk: num("rchunk")}
	p := newConn(pc, !isServer, 0, 0, nil, nil, nil)
	if comp {
		p.newDecompressionReader = decompressNoContextTakeover
		p.newCompressionWriter = compressNoContextTakeover
	}
	var ev []string
	p.SetPingHandler(func(b []byte) error {
		ev = append(ev, "pi:"+verifC30Hex(b))
		return p.defaultPingHandler(b)
	})
	p.SetPongHandler(func(b []byte) error {
		ev = append(ev, "po:"+verifC30Hex(b))
		return nil
	})
	for i := 0; i < len(wire)+4; i++ {
		mt, data, err := p.ReadMessage()
		if err != nil {
			ev = append(ev, verifC30ReadErr(err))
			break
		}
		ev = append(ev, fmt.Sprintf("m%d:%s", mt, verifC30Hex(data)))
	}
	e := "-"
	if len(errs) > 0 {
		e = strings.Join(errs, ",")
	}
	s := "-"
	if len(spies) > 0 {
		s = strings.Join(spies, ",")
	}
	return fmt.Sprintf("wire=%s errs=%s spy=%s rd=%s rw=%s", verifC30Hex(wire), e, s, strings.Join(ev, ","),
		verifC30Hex(pc.w.Bytes()))
}

func verifC30ReadAll(wire []byte, isServer, comp bool) string {
	pc := &verifC30Conn{data: wire}
	p := newConn(pc, isServer, 0, 0, nil, nil, nil)
	if comp {
		p.newDecompressionReader = decompressNoContextTakeover
		p.newCompressionWriter = compressNoContextTakeover
	}
	var ev []string
	p.SetPingHandler(func(b []byte) error { ev = append(ev, "pi:"+verifC30Hex(b)); return nil })
	p.SetPongHandler(func(b []byte) error { ev = append(ev, "po:"+verifC30Hex(b)); return nil })
	for i := 0; i < len(wire)+4; i++ {
		mt, data, err := p.ReadMessage()
		if err != nil {
			ev = append(ev, verifC30ReadErr(err))
			break
		}
		ev = append(ev, fmt.Sprintf("m%d:%s", mt, verifC30Hex(data)))
	}
	return strings.Join(ev, ",")
}

func verifC30Pool2(kv map[string]string) string {
	isServer := kv["side"] == "s"
	comp := kv["comp"] == "1"
	wbuf, _ := strconv.Atoi(kv["wbuf"])
	pool := &verifC30Pool{}
	na, nb := &verifC30Conn{}, &verifC30Conn{}
	a := newConn(na, isServer, 0, wbuf, pool, nil, nil)
	b := newConn(nb, isServer, 0, wbuf, pool, nil, nil)
	if comp {
		a.newCompressionWriter = compressNoContextTakeover
		b.newCompressionWriter = compressNoContextTakeover
	}
	bf := strings.Split(kv["b"], ":")
	if len(bf) != 2 {
		return "bad-op"
	}
	btyp, _ := strconv.Atoi(bf[0])
	bdata, ok := verifC30Unhex(bf[1])
	if !ok {
		return "bad-op"
	}
	count := 0
	var berr error
	na.onWrite = func() {
		if err := b.WriteMessage(btyp, bdata); err != nil && berr == nil {
			berr = err
		}
		count++
	}
	var errs []string
	for _, m := range strings.Split(kv["a"], ";") {
		if m == "" {
			continue
		}
		f := strings.Split(m, ":")
		if len(f) != 2 {
			return "bad-op"
		}
		typ, _ := strconv.Atoi(f[0])
		data, ok := verifC30Unhex(f[1])
		if !ok {
			return "bad-op"
		}
		errs = append(errs, verifC30Err(a.WriteMessage(typ, data)))
	}
	e := "-"
	if len(errs) > 0 {
		e = strings.Join(errs, ",")
	}
	return fmt.Sprintf("wa=%s wb=%s nb=%d errs=%s berr=%s ra=%s rb=%s", verifC30Hex(na.w.Bytes()), verifC30Hex(nb.w.Bytes()),
		count, e, verifC30Err(berr), verifC30ReadAll(na.w.Bytes(), !isServer, comp), verifC30ReadAll(nb.w.Bytes(), !isServer, comp))
}

type verifC30Rec struct{ out []string }

func (r *verifC30Rec) Write(p []byte) (int, error) {
	r.out = append(r.out, verifC30Hex(p))
	return len(p), nil
}
func (r *verifC30Rec) Close() error { return nil }

func verifC30Step(line string) (res string) {
	defer func() {
		if r := recover(); r != nil {
			res = "PANIC"
		}
	}()
	ws := strings.Fields(line)
	if len(ws) == 0 {
		return "bad-op"
	}
	kv := map[string]string{}
	for _, w := range ws[1:] {
		if i := strings.IndexByte(w, '='); i > 0 {
			kv[w[:i]] = w[i+1:]
		}
	}
	switch ws[0] {
	case "wr":
		return verifC30Wr(kv)
	case "pool":
		return verifC30Pool2(kv)
	case "tw":
		chunks, ok := verifC30Chunks(kv["chunks"])
		if !ok {
			return "bad-op"
		}
		rec := &verifC30Rec{}
		tw := &truncWriter{w: rec}
		for _, ch := range chunks {
			// the byte count truncWriter.Write returns is short by the bytes it keeps back; flate ignores it
			if _, err := tw.Write(ch); err != nil {
				return "write-error"
			}
		}
		return fmt.Sprintf("out=%s held=%s", strings.Join(rec.out, "/"), verifC30Hex(tw.p[:tw.n]))
	case "mask":
		kb, ok1 := verifC30Unhex(kv["key"])
		data, ok2 := verifC30Unhex(kv["data"])
		if !ok1 || !ok2 || len(kb) != 4 {
			return "bad-op"
		}
		pos, _ := strconv.Atoi(kv["pos"])
		align, _ := strconv.Atoi(kv["align"])
		var key [4]byte
		copy(key[:], kb)
		backing := make([]byte, len(data)+32)
		off := 0
		for (int(uintptr(unsafe.Pointer(&backing[off])))-align)%8 != 0 {
			off++
		}
		b := backing[off : off+len(data)]
		copy(b, data)
		np := maskBytes(key, pos, b)
		return fmt.Sprintf("out=%s pos=%d", verifC30Hex(b), np)
	}
	return "bad-op"
}

func TestVerifC30(t *testing.T) {
	in, err := os.Open(os.Getenv("VERIF_OPS"))
	if err != nil {
		t.Skip("no VERIF_OPS")
	}
	defer in.Close()
	out, err := os.Create(os.Getenv("VERIF_OUT"))
	if err != nil {
		t.Fatal(err)
	}
	defer out.Close()
	w := bufio.NewWriter(out)
	defer w.Flush()
	sc := bufio.NewScanner(in)
	sc.Buffer(make([]byte, 1<<20), 1<<28)
	for sc.Scan() {
		line := sc.Text()
		if line == "" || strings.HasPrefix(line, "#") {
			fmt.Fprintln(w, "#")
			continue
		}
		fmt.Fprintln(w, verifC30Step(line))
	}
}
