"""C43 — history and presence client commands honour their limits.

Proof: lean/CentrifugeVerif/Props/C43.lean over Model/HistoryCmd.lean (+ Model/HistoryHub.lean).
Tie: a real Node + real Client (in-memory protobuf transport, public Client.HandleCommand) inside a
synctest bubble and the Lean driver run the same op lines; outputs are diffed.
Oracle: the statement evaluated on the implementation's outputs: every client `hist` line is followed
by a `nodehist` line carrying the *effective* filter (limit clamped to HistoryMaxPublicationLimit when
that is set and the requested limit is negative or larger); the two results must be equal, a reply
never has more publications than the configured limit, reverse + since offset 0 is error 107;
`presence`/`pstats` replies equal `nodepresence`/`nodepstats`.
"""
import json
import os
import sys

sys.path.insert(0, os.path.join(os.path.dirname(os.path.abspath(__file__)), "..", "C17"))
import c17_histlib as H  # noqa: E402
from vlib.core import ddmin  # noqa: E402

HARNESS = ["props/C17/harness/zz_verif_hist_test.go", "props/C43/harness/zz_verif_histcmd_test.go"]
TEST = "TestVerifHistCmd"
I32MAX, I32MIN = 2 ** 31 - 1, -2 ** 31
U64MAX = 2 ** 64 - 1


def eff_limit(mx, limit):
    """the statement's effective limit"""
    if mx > 0 and (limit < 0 or limit > mx):
        return mx
    return limit


def gen_scenario(rng, nops=28):
    mx = rng.choice([0, 0, 1, 2, 3, 5, -1, 1000])
    hh = 0 if rng.random() < 0.05 else 1
    sf = 1 if rng.random() < 0.5 else 0
    lines = [f"reset max={mx} meta={rng.choice([0, 0, 4000, 10000])} hh={hh} sf={sf}"]
    chans = rng.choice([["a"], ["a", "b"]])
    t = rng.randint(1, 999)
    npub = {c: 0 for c in chans}
    size = rng.choice([1, 3, 5, 10])
    ttls = rng.choice([[2000, 3000], [5000, 60000], [60000]])
    for i in range(nops):
        r = rng.random()
        t += rng.randint(1, 300) if r < 0.7 else (rng.randint(300, 3000) if r < 0.93 else rng.randint(3000, 20000))
        if t % 1000 == 0:
            t += 1
        ch = rng.choice(chans)
        k = rng.random()
        if k < (0.55 if i < 10 else 0.25):
            lines.append(f"pub {ch} d{i} size={size} ttl={rng.choice(ttls)} @{t}")
            npub[ch] += 1
        elif k < 0.75:
            since = "-"
            if rng.random() < 0.55:
                n = npub[ch]
                off = rng.choice([0, 0, 1, 2, max(n - 1, 0), n, n + 1, n + 3, 2 ** 63, U64MAX if rng.random() < 0.2 else 1])
                since = f"{off}:{rng.choice([0, 0, 1, 1, 2, 99])}"
            limit = rng.choice([-1, -1, 0, 1, 2, 3, 5, 100, -5, I32MAX, I32MIN])
            rev = 1 if rng.random() < 0.45 else 0
            if rng.random() < 0.4:
                # the client command overlaps a parked node-level call with another (or the same) limit
                nl = rng.choice([-1, -1, 0, 1, 2, 100, eff_limit(mx, limit)])
                lines.append(f"ohist {ch} since={since} limit={limit} rev={rev} nodelimit={nl} @{t}")
            else:
                lines.append(f"hist {ch} since={since} limit={limit} rev={rev} @{t}")
            lines.append(f"nodehist {ch} since={since} limit={eff_limit(mx, limit)} rev={rev} @{t}")
        elif k < 0.87:
            c = rng.choice(["c1", "c2", "c3", "c4"])
            if rng.random() < 0.7:
                lines.append(f"padd {ch} {c} {rng.choice(['u1', 'u2'])}")
            else:
                lines.append(f"prm {ch} {c}")
        elif k < 0.94:
            lines.append(f"presence {ch}")
            lines.append(f"nodepresence {ch}")
        else:
            lines.append(f"pstats {ch}")
            lines.append(f"nodepstats {ch}")
    if rng.random() < 0.1:
        t += 7
        kind = rng.choice(["hist", "presence", "pstats"])
        lines.append(f"hist - since=- limit=1 rev=0 @{t}" if kind == "hist" else f"{kind} -")
        lines.append(f"hist {chans[0]} since=- limit=1 rev=0 @{t + 5}")
    return lines


def oracle(scen, outs):
    """None or (index, kind, message)."""
    hd = H.kvs(scen[0].split()[1:])
    mx, hh = int(hd["max"]), int(hd["hh"])
    closed = False
    for i, (line, out) in enumerate(zip(scen, outs)):
        ws = line.split()
        if ws and ws[0] == "ohist":
            # same statement as `hist`; the background call's own result is only diffed with the model
            ws[0] = "hist"
            if " bg=" not in out and out not in ("PANIC", "<missing>", "bad-op"):
                return i, "broken", f"`{line}` -> `{out}`"
            out = out.split(" bg=")[0]
        if not ws or line.startswith("#") or ws[0] == "reset":
            if ws and ws[0] == "reset" and out != "ok":
                return i, "connect", f"connect failed: {out}"
            continue
        if out in ("PANIC", "<missing>", "bad-op", "no-reply") or out.startswith("err=other") or out.startswith("reply-without"):
            return i, "broken", f"`{line}` -> `{out}`"
        if ws[0] not in ("hist", "presence", "pstats"):
            continue
        if closed:
            if out != "closed":
                return i, "after-close", f"command on a closed connection answered `{out}`"
            continue
        if ws[1] == "-":
            if hh and out != "disc=3501":
                return i, "empty-channel", f"empty channel not rejected with bad-request disconnect: `{out}`"
            if out.startswith("disc="):
                closed = True
            continue
        if not hh:
            if out != "err=108":
                return i, "no-handler", f"command without handler answered `{out}`"
            continue
        nxt = scen[i + 1].split() if i + 1 < len(scen) else []
        nout = outs[i + 1] if i + 1 < len(outs) else "<missing>"
        if not nxt or nxt[0] != "node" + ws[0] or nxt[1] != ws[1]:
            continue   # shrunk scenario without its node-level twin
        if ws[0] == "hist":
            d = H.kvs(ws[2:])
            if int(d["rev"]) and d["since"] != "-" and d["since"].split(":")[0] == "0":
                if out != "err=107":
                    return i, "reverse-since0", f"reverse request since offset 0 not rejected as bad request: `{out}`"
            if out.startswith("ok") and mx > 0:
                n = len(H.parse_items(H.kvs(out.split())["pubs"]))
                if n > mx:
                    return i, "limit-exceeded", f"{n} publications returned, HistoryMaxPublicationLimit={mx}"
            nd = H.kvs(nxt[2:])
            if int(nd["limit"]) != eff_limit(mx, int(d["limit"])) or nd["since"] != d["since"] or nd["rev"] != d["rev"]:
                continue   # twin does not carry the effective filter (hand-edited replay)
        if out != nout:
            return i, "ne-node:" + ws[0], f"client `{line}` -> `{out}` but node-level `{scen[i + 1]}` -> `{nout}`"
    if len(outs) < len(scen):
        return len(outs), "crash", "implementation produced no output (crash?)"
    return None


EXPECTED_KEY = [
    'W("channel:")', 'W(ch)',
    'if opts.Filter.Since != nil {',
    'W(",offset:")', 'W(strconv.FormatUint(opts.Filter.Since.Offset, 10))',
    'W(",epoch:")', 'W(opts.Filter.Since.Epoch)',
    '}',
    'W(",limit:")', 'W(strconv.Itoa(opts.Filter.Limit))',
    'W(",reverse:")', 'W(strconv.FormatBool(opts.Filter.Reverse))',
    'W(",meta_ttl:")', 'W(opts.MetaTTL.String())',
    'key := builder.String()',
]


def single_flight_key_shape(repo):
    """The statements that build the single-flight key in node.go `historySingleFlight`, normalised.
    Model/HistoryCmd.lean `historyKey` (channel, since?, limit, reverse, metaTTL — limit unconditional)
    and `historyKey_injective` describe exactly EXPECTED_KEY."""
    import re
    src = open(os.path.join(repo, "node.go")).read()
    m = re.search(r"func \(n \*Node\) historySingleFlight\(.*?\n(.*?)\n\tresult, err, _ := historyGroup\.Do\(key,", src, re.S)
    if not m:
        return None
    out = []
    for l in m.group(1).splitlines():
        l = l.strip()
        if not l or l.startswith("//") or l == "var builder strings.Builder":
            continue
        out.append(l.replace("builder.WriteString(", "W("))
    return out


def shrink(ctx, binary, scen, kind):
    head, body = scen[0], list(scen[1:])
    budget = [60]

    def fails(sub):
        if budget[0] <= 0:
            return False
        budget[0] -= 1
        ops = [head] + list(sub)
        r = oracle(ops, ctx.go_run(binary, TEST, ops, timeout=60))
        return r is not None and r[1] == kind
    try:
        body = ddmin(body, fails)
    except AssertionError:
        pass
    return [head] + body


def run(ctx):
    ctx.rule = ("random scenarios: HistoryMaxPublicationLimit in {0,1,2,3,5,1000,-1}, handlers installed or not; "
                "publishes building 1-2 channel histories (with TTL expiry), client history commands (since incl. "
                "offset 0, top±, 2^63, 2^64-1, epochs empty/valid/bogus; limit in {-1,0,1,2,3,5,100,-5,int32 min/max}; "
                "reverse) each followed by the node-level call with the effective filter; presence add/remove and "
                "presence / presence_stats commands each followed by the node-level call; empty channel; half of the "
                "scenarios with Config.UseSingleFlight, 40% of the history commands issued while a node-level History "
                "for the same channel/since/direction with another (or the same) limit is parked inside the broker; "
                "one case = one scenario (~28 ops)")
    ctx.assumptions = [
        "the application handler passes the request through (cb(HistoryReply{}, nil)); a handler that substitutes "
        "its own result is outside the statement",
        "presence counts < 2^32 (the reply fields are uint32)",
        "memory broker / memory presence manager",
    ]
    proofs_ok = ctx.lean_obligations()
    from vlib.core import REPO
    shape = single_flight_key_shape(REPO)
    shape_ok = shape == EXPECTED_KEY
    ctx.extra["single_flight_key_shape_ok"] = shape_ok
    binary = ctx.go_test_binary(".", HARNESS)
    if binary is None:
        ctx.violation("correspondence", "harness no longer builds against package centrifuge",
                      signature={"kind": "harness-build"}, replay={"log": getattr(ctx, "build_error", "")},
                      no_input=True)
        return
    scenarios = []
    if ctx.replay:
        ops = json.load(open(ctx.replay)).get("ops", [])
        scenarios = [("replay", ops[a:b]) for a, b in H.split_scenarios(ops)]
    else:
        corpus = [l.rstrip("\n") for l in open("props/C43/corpus.ops") if l.strip() and not l.startswith("#")]
        scenarios = [("corpus", corpus[a:b]) for a, b in H.split_scenarios(corpus)]
        for _ in range(ctx.scale(800, 12000)):
            scenarios.append(("gen", gen_scenario(ctx.rng)))
    ops = [l for _, s in scenarios for l in s]
    impl = ctx.go_run(binary, TEST, ops, timeout=ctx.scale(400, 1500))
    if ctx.last_go_crash:
        ctx.notes.append("go harness: " + str(ctx.last_go_crash)[-400:])
    model = ctx.lean_run(ops)
    if model is None:
        proofs_ok, model = False, []
    pos, ndiff, nviol = 0, 0, {}
    for origin, scen in scenarios:
        a, b = pos, pos + len(scen)
        pos = b
        outs, mouts = impl[a:b], model[a:b]
        ctx.record(scen, nontrivial=len(scen) > 2)
        for l, o in zip(scen, outs):
            k = l.split()[0]
            ctx.count("op:" + k)
            if k == "ohist":
                k, o = "hist", o.split(" bg=")[0]
                ctx.count("hist-overlapped" + (":singleflight" if " sf=1" in scen[0] else ""))
            if k in ("hist", "presence", "pstats"):
                ctx.count(k + ":" + o.split()[0].split("=")[0] + ("=" + o.split("=")[1] if o.startswith(("err=", "disc=")) else ""))
        res = oracle(scen, outs)
        if res is not None:
            i, kind, msg = res
            nviol[kind] = nviol.get(kind, 0) + 1
            if nviol[kind] <= 1:
                small = shrink(ctx, binary, scen[:i + 2], kind)
                souts = ctx.go_run(binary, TEST, small, timeout=60)
                sres = oracle(small, souts)
                ctx.violation("property", sres[2] if sres else msg, signature={"kind": kind},
                              replay={"ops": small, "impl": souts, "origin": origin})
        for j, (line, x, y) in enumerate(zip(scen, outs + ["<missing>"] * len(scen), mouts + ["<missing>"] * len(scen))):
            if x != y:
                ndiff += 1
                if ndiff <= 3 and model:
                    ctx.violation("correspondence",
                                  f"model and implementation differ at op {j} `{line}`: impl `{x}` model `{y}`",
                                  signature={"kind": "diff", "op": line.split()[0]},
                                  replay={"ops": scen[:j + 1], "impl": outs[:j + 1], "model": mouts[:j + 1],
                                          "correspondence": "Model/HistoryCmd.lean vs client.go/node.go"},
                                  no_input=res is None)
                break
    if not shape_ok:
        # the key builder no longer writes (channel, since?, limit, reverse, meta_ttl) as modelled by
        # `historyKey`; a failing input was found iff the overlapped scenarios above caught it
        ctx.violation("correspondence",
                      "node.go historySingleFlight builds its key differently from Model/HistoryCmd.lean historyKey: "
                      + json.dumps(shape),
                      signature={"kind": "single-flight-key-shape"},
                      replay={"found": shape, "expected": EXPECTED_KEY}, no_input=not nviol)
    ctx.traces_validated = len(scenarios)
    ctx.extra["disagreements"] = ndiff
    ctx.extra["ops_total"] = len(ops)
    if not proofs_ok:
        ctx.proof_broken()
