//go:build verif

package centrifuge

// Verification harness for C43 (injected with `go test -overlay`, never part of the repo).
//
// A real Node (memory broker, memory presence manager) and a real Client on an in-memory
// protobuf transport run inside a `testing/synctest` bubble.  Client commands go through the
// public `Client.HandleCommand`; the reply is read back from what the client wrote to the
// transport.  Node-level results come from `Node.History / Presence / PresenceStats`.
// Line protocol: see /verif/lean/Drivers/C43.lean.

import (
	"context"
	"fmt"
	"sort"
	"strconv"
	"strings"
	"sync"
	"testing"
	"testing/synctest"
	"time"

	"github.com/centrifugal/protocol"
)

type verifCmdTransport struct {
	mu     sync.Mutex
	frames [][]byte
	closed bool
	disc   *Disconnect
}

func (t *verifCmdTransport) Name() string                     { return "verif" }
func (t *verifCmdTransport) AcceptProtocol() string           { return "" }
func (t *verifCmdTransport) Protocol() ProtocolType           { return ProtocolTypeProtobuf }
func (t *verifCmdTransport) ProtocolVersion() ProtocolVersion { return ProtocolVersion2 }
func (t *verifCmdTransport) Unidirectional() bool             { return false }
func (t *verifCmdTransport) Emulation() bool                  { return false }
func (t *verifCmdTransport) DisabledPushFlags() uint64        { return 0 }
func (t *verifCmdTransport) PingPongConfig() PingPongConfig {
	return PingPongConfig{PingInterval: -1}
}

func (t *verifCmdTransport) Write(b []byte) error {
	t.mu.Lock()
	defer t.mu.Unlock()
	t.frames = append(t.frames, append([]byte(nil), b...))
	return nil
}

func (t *verifCmdTransport) WriteMany(bs ...[]byte) error {
	t.mu.Lock()
	defer t.mu.Unlock()
	for _, b := range bs {
		t.frames = append(t.frames, append([]byte(nil), b...))
	}
	return nil
}

func (t *verifCmdTransport) Close(d Disconnect) error {
	t.mu.Lock()
	defer t.mu.Unlock()
	t.closed = true
	dd := d
	t.disc = &dd
	return nil
}

// take returns the reply with the given command id (and drops everything written so far).
func (t *verifCmdTransport) take(id uint32) *protocol.Reply {
	t.mu.Lock()
	defer t.mu.Unlock()
	var found *protocol.Reply
	for _, f := range t.frames {
		// a transport receives each Reply marshalled without the length prefix (the
		// transport adds its own framing)
		var r protocol.Reply
		if err := r.UnmarshalVT(f); err == nil && r.Id == id {
			found = &r
		}
	}
	t.frames = nil
	return found
}

// verifCmdGatedBroker is the node's MemoryBroker with a gate in History: when armed, the next
// History call parks inside the broker until released, so that a second history call for the
// same channel can be made to overlap it deterministically (single-flight sharing).
type verifCmdGatedBroker struct {
	*MemoryBroker
	mu      sync.Mutex
	armed   bool
	entered bool
	release chan struct{}
}

func (b *verifCmdGatedBroker) History(ch string, opts HistoryOptions) ([]*Publication, StreamPosition, error) {
	b.mu.Lock()
	var rel chan struct{}
	if b.armed {
		b.armed = false
		b.entered = true
		rel = b.release
	}
	b.mu.Unlock()
	if rel != nil {
		<-rel
	}
	return b.MemoryBroker.History(ch, opts)
}

type verifCmdEnv struct {
	gb     *verifCmdGatedBroker
	node   *Node
	client *Client
	tr     *verifCmdTransport
	pm     *MemoryPresenceManager
	ep     *verifHistEpochs
	start  time.Time
	nextID uint32
	// when set, called while the current client command is in flight (releases the gate)
	overlap func()
}

func (env *verifCmdEnv) sleepUntil(at time.Duration) {
	d := env.start.Add(at).Sub(time.Now())
	if d > 0 {
		time.Sleep(d)
	}
	synctest.Wait()
}

func verifCmdErr(err error) string {
	if e, ok := err.(*Error); ok {
		return fmt.Sprintf("err=%d", e.Code)
	}
	return "err=other:" + strings.ReplaceAll(err.Error(), " ", "_")
}

// command sends one command through the public entry point and classifies the outcome.
func (env *verifCmdEnv) command(cmd *protocol.Command) (*protocol.Reply, string) {
	env.nextID++
	cmd.Id = env.nextID
	env.tr.mu.Lock()
	closed := env.tr.closed
	env.tr.mu.Unlock()
	if closed {
		return nil, "closed"
	}
	if env.overlap != nil {
		// run the command while a node-level history call is parked inside the broker
		done := make(chan struct{})
		go func() {
			env.client.HandleCommand(cmd, 0)
			close(done)
		}()
		synctest.Wait()
		env.overlap()
		<-done
	} else {
		env.client.HandleCommand(cmd, 0)
	}
	synctest.Wait()
	rep := env.tr.take(cmd.Id)
	env.tr.mu.Lock()
	disc := env.tr.disc
	env.tr.mu.Unlock()
	if rep == nil {
		if disc != nil {
			return nil, fmt.Sprintf("disc=%d", disc.Code)
		}
		return nil, "no-reply"
	}
	if rep.Error != nil {
		return nil, fmt.Sprintf("err=%d", rep.Error.Code)
	}
	return rep, ""
}

func verifCmdChan(s string) string {
	if s == "-" {
		return ""
	}
	return s
}

func (env *verifCmdEnv) parseFilter(rest []string) (since *StreamPosition, limit int64, rev bool, ok bool) {
	sinceS, ok1 := verifHistKV(rest, "since")
	limS, ok2 := verifHistKV(rest, "limit")
	r, ok3 := verifHistUint(rest, "rev")
	if !(ok1 && ok2 && ok3) {
		return nil, 0, false, false
	}
	lim, err := strconv.ParseInt(limS, 10, 64)
	if err != nil {
		return nil, 0, false, false
	}
	if sinceS != "-" {
		parts := strings.Split(sinceS, ":")
		if len(parts) != 2 {
			return nil, 0, false, false
		}
		off, err1 := strconv.ParseUint(parts[0], 10, 64)
		ei, err2 := strconv.Atoi(parts[1])
		if err1 != nil || err2 != nil || ei < 0 {
			return nil, 0, false, false
		}
		since = &StreamPosition{Offset: off, Epoch: env.ep.resolve(ei)}
	}
	return since, lim, r != 0, true
}

func verifCmdFmtClients(m map[string]string) string {
	if len(m) == 0 {
		return "ok clients=-"
	}
	parts := make([]string, 0, len(m))
	for c, u := range m {
		parts = append(parts, c+":"+u)
	}
	sort.Strings(parts)
	return "ok clients=" + strings.Join(parts, ",")
}

func (env *verifCmdEnv) step(line string) (res string) {
	defer func() {
		if r := recover(); r != nil {
			res = "PANIC"
		}
	}()
	ws := strings.Fields(line)
	if len(ws) == 0 {
		return "bad-op"
	}
	switch ws[0] {
	case "pub":
		if len(ws) < 3 {
			return "bad-op"
		}
		size, ok1 := verifHistUint(ws[3:], "size")
		ttl, ok2 := verifHistUint(ws[3:], "ttl")
		at, ok3 := verifHistAt(ws[3:])
		if !(ok1 && ok2 && ok3) {
			return "bad-op"
		}
		env.sleepUntil(at)
		r, err := env.node.Publish(ws[1], []byte(ws[2]), WithHistory(int(size), time.Duration(ttl)*time.Millisecond))
		if err != nil {
			return verifCmdErr(err)
		}
		return fmt.Sprintf("off=%d ep=%d", r.Offset, env.ep.canon(r.Epoch))
	case "hist", "nodehist", "ohist":
		if len(ws) < 2 {
			return "bad-op"
		}
		since, lim, rev, ok := env.parseFilter(ws[2:])
		at, ok2 := verifHistAt(ws[2:])
		if !ok || !ok2 {
			return "bad-op"
		}
		env.sleepUntil(at)
		bg := ""
		if ws[0] == "ohist" {
			// overlapped history: a node-level History(ch, same since/reverse, limit=nodelimit) is
			// started first and parks inside the broker; the client command runs while it is parked.
			nlS, okn := verifHistKV(ws[2:], "nodelimit")
			nl, errn := strconv.Atoi(nlS)
			if !okn || errn != nil {
				return "bad-op"
			}
			type bgRes struct {
				r   HistoryResult
				err error
			}
			bgDone := make(chan bgRes, 1)
			env.gb.mu.Lock()
			env.gb.armed, env.gb.entered = true, false
			env.gb.release = make(chan struct{})
			rel := env.gb.release
			env.gb.mu.Unlock()
			go func() {
				r, err := env.node.History(ws[1], WithHistoryFilter(HistoryFilter{Since: since, Limit: nl, Reverse: rev}))
				bgDone <- bgRes{r, err}
			}()
			synctest.Wait()
			released := false
			env.overlap = func() {
				if !released {
					released = true
					close(rel)
				}
			}
			defer func() {
				env.overlap = nil
			}()
			collect := func() string {
				env.overlap()
				env.gb.mu.Lock()
				env.gb.armed = false
				env.gb.mu.Unlock()
				b := <-bgDone
				if b.err != nil {
					return " bg=" + verifCmdErr(b.err)
				}
				return fmt.Sprintf(" bg=ok:%d", len(b.r.Publications))
			}
			defer func() {
				res += collect()
			}()
		}
		_ = bg
		if ws[0] == "nodehist" {
			r, err := env.node.History(ws[1], WithHistoryFilter(HistoryFilter{Since: since, Limit: int(lim), Reverse: rev}))
			if err != nil {
				return verifCmdErr(err)
			}
			return fmt.Sprintf("ok pos=%d:%d pubs=%s", r.Offset, env.ep.canon(r.Epoch), verifHistFmtPubs(r.Publications))
		}
		if lim < -(1<<31) || lim > (1<<31)-1 {
			return "bad-op"
		}
		req := &protocol.HistoryRequest{Channel: verifCmdChan(ws[1]), Limit: int32(lim), Reverse: rev}
		if since != nil {
			req.Since = &protocol.StreamPosition{Offset: since.Offset, Epoch: since.Epoch}
		}
		rep, out := env.command(&protocol.Command{History: req})
		if rep == nil {
			return out
		}
		if rep.History == nil {
			return "reply-without-history"
		}
		parts := make([]string, 0, len(rep.History.Publications))
		for _, p := range rep.History.Publications {
			parts = append(parts, fmt.Sprintf("%d/%s", p.Offset, string(p.Data)))
		}
		pubs := "-"
		if len(parts) > 0 {
			pubs = strings.Join(parts, ",")
		}
		return fmt.Sprintf("ok pos=%d:%d pubs=%s", rep.History.Offset, env.ep.canon(rep.History.Epoch), pubs)
	case "padd":
		if len(ws) != 4 {
			return "bad-op"
		}
		if err := env.pm.AddPresence(ws[1], ws[2], &ClientInfo{ClientID: ws[2], UserID: ws[3]}); err != nil {
			return verifCmdErr(err)
		}
		return "ok"
	case "prm":
		if len(ws) != 3 {
			return "bad-op"
		}
		if err := env.pm.RemovePresence(ws[1], ws[2], ""); err != nil {
			return verifCmdErr(err)
		}
		return "ok"
	case "presence":
		if len(ws) != 2 {
			return "bad-op"
		}
		rep, out := env.command(&protocol.Command{Presence: &protocol.PresenceRequest{Channel: verifCmdChan(ws[1])}})
		if rep == nil {
			return out
		}
		if rep.Presence == nil {
			return "reply-without-presence"
		}
		m := map[string]string{}
		for k, v := range rep.Presence.Presence {
			if v == nil || v.Client != k {
				return "presence-key-mismatch"
			}
			m[k] = v.User
		}
		return verifCmdFmtClients(m)
	case "nodepresence":
		if len(ws) != 2 {
			return "bad-op"
		}
		r, err := env.node.Presence(ws[1])
		if err != nil {
			return verifCmdErr(err)
		}
		m := map[string]string{}
		for k, v := range r.Presence {
			if v == nil || v.ClientID != k {
				return "presence-key-mismatch"
			}
			m[k] = v.UserID
		}
		return verifCmdFmtClients(m)
	case "pstats":
		if len(ws) != 2 {
			return "bad-op"
		}
		rep, out := env.command(&protocol.Command{PresenceStats: &protocol.PresenceStatsRequest{Channel: verifCmdChan(ws[1])}})
		if rep == nil {
			return out
		}
		if rep.PresenceStats == nil {
			return "reply-without-presence-stats"
		}
		return fmt.Sprintf("ok nc=%d nu=%d", rep.PresenceStats.NumClients, rep.PresenceStats.NumUsers)
	case "nodepstats":
		if len(ws) != 2 {
			return "bad-op"
		}
		r, err := env.node.PresenceStats(ws[1])
		if err != nil {
			return verifCmdErr(err)
		}
		return fmt.Sprintf("ok nc=%d nu=%d", r.NumClients, r.NumUsers)
	}
	return "bad-op"
}

func verifCmdScenario(t *testing.T, lines []string) []string {
	out := make([]string, 0, len(lines))
	ws := strings.Fields(lines[0])
	maxS, ok1 := verifHistKV(ws[1:], "max")
	meta, ok2 := verifHistUint(ws[1:], "meta")
	hh, ok3 := verifHistUint(ws[1:], "hh")
	sf, _ := verifHistUint(ws[1:], "sf") // optional: Config.UseSingleFlight
	maxLimit, err := strconv.Atoi(maxS)
	if !(ok1 && ok2 && ok3) || err != nil {
		for range lines {
			out = append(out, "bad-op")
		}
		return out
	}
	synctest.Test(t, func(t *testing.T) {
		start := time.Now()
		node, err := New(Config{
			LogLevel:                   LogLevelNone,
			HistoryMetaTTL:             time.Duration(meta) * time.Millisecond,
			HistoryMaxPublicationLimit: maxLimit,
			UseSingleFlight:            sf != 0,
		})
		if err != nil {
			t.Fatal(err)
		}
		mb, err := NewMemoryBroker(node, MemoryBrokerConfig{})
		if err != nil {
			t.Fatal(err)
		}
		gb := &verifCmdGatedBroker{MemoryBroker: mb}
		node.SetBroker(gb)
		pm, err := NewMemoryPresenceManager(node, MemoryPresenceManagerConfig{})
		if err != nil {
			t.Fatal(err)
		}
		node.SetPresenceManager(pm)
		node.OnConnect(func(c *Client) {
			if hh != 0 {
				c.OnHistory(func(e HistoryEvent, cb HistoryCallback) { cb(HistoryReply{}, nil) })
				c.OnPresence(func(e PresenceEvent, cb PresenceCallback) { cb(PresenceReply{}, nil) })
				c.OnPresenceStats(func(e PresenceStatsEvent, cb PresenceStatsCallback) { cb(PresenceStatsReply{}, nil) })
			}
		})
		if err := node.Run(); err != nil {
			t.Fatal(err)
		}
		tr := &verifCmdTransport{}
		ctx, cancel := context.WithCancel(SetCredentials(context.Background(), &Credentials{UserID: "verif"}))
		client, closeFn, err := NewClient(ctx, node, tr)
		if err != nil {
			t.Fatal(err)
		}
		env := &verifCmdEnv{node: node, client: client, tr: tr, pm: pm, gb: gb, start: start,
			ep: &verifHistEpochs{idx: map[string]int{}}}
		_, cres := env.command(&protocol.Command{Connect: &protocol.ConnectRequest{}})
		if cres != "" {
			out = append(out, "connect-failed:"+cres)
		} else {
			out = append(out, "ok")
		}
		for _, l := range lines[1:] {
			if l == "" || strings.HasPrefix(l, "#") {
				out = append(out, "#")
				continue
			}
			out = append(out, env.step(l))
		}
		_ = closeFn()
		cancel()
		_ = node.Shutdown(context.Background())
		synctest.Wait()
	})
	return out
}

func TestVerifHistCmd(t *testing.T) {
	verifHistRun(t, verifCmdScenario)
}
