"""C10 — channel pushes are bracketed by the subscription's start and end.

Proof: lean/CentrifugeVerif/Props/C10.lean over Model/Bracket.lean (LTS of one connection × one channel).
Tie: schedule-controlled trace validation.  The Lean driver produces schedules (paths of the model's
`next`, so the real goroutines are never sent into a mutex), the Go harness replays each schedule on a
real Node/Client inside a synctest bubble with gates in OnSubscribe, Broker.Subscribe,
PresenceManager.Add/RemovePresence, Broker.History, the trace-level LogHandler, OnUnsubscribe and
OnTransportWrite; the decoded transport frames must equal the model's wire, and the oracle (the property
statement: every publication/join/leave push lies after a subscribe reply/push and before the next
unsubscribe reply/push) is evaluated on the implementation's frames.
"""
import json
import os

from vlib.core import diff_lines, VERIF

HARNESS = ["props/C10/harness/zz_verif_c10_test.go"]
TEST = "TestVerifC10"
CFG_KEYS = ("ss", "pos", "bat", "rwq")


def cfg_str(cfg):
    # the model's switch offset0Checked defaults to true = the current code (fix 9c975f8e); a regression of
    # that check shows up as a property violation (C10-1 is `fixed`, it suppresses nothing) and as a diff
    return " ".join(f"{k}={int(bool(cfg[k]))}" for k in CFG_KEYS) + " serial=1"


def run_line(cfg, labels):
    return f"run {cfg_str(cfg)} | " + " ".join(labels)


def parse_run(op):
    head, _, tail = op.partition("|")
    tail = tail.partition(";")[0]
    cfg = {}
    for w in head.split()[1:]:
        k, _, v = w.partition("=")
        cfg[k] = v == "1"
    return {k: cfg.get(k, False) for k in CFG_KEYS}, tail.split()


def fields(line):
    return dict(w.split("=", 1) for w in line.split() if "=" in w)


def parse_out(line):
    """-> (tokens, live) or None when the line is not a normal result.  For a scenario the harness stopped
    because the parked actors differed from the model's (`diverged=`), the tokens are the frames after all
    parked actors were released in key order (`final=`): still a schedule of the real code."""
    if not line.startswith("frames="):
        return None
    f = fields(line)
    toks = [t for t in f.get("final", f.get("frames", "")).split(",") if t]
    live = [t for t in f.get("live", "").split(",") if t]
    return toks, live


def core(line):
    """frames/live part of an output line (the model's `trail=` is the expectation handed to the harness)"""
    if not line.startswith("frames="):
        return line
    f = fields(line)
    out = f"frames={f.get('frames', '')} live={f.get('live', '')}"
    if "diverged" in f:
        out += f" diverged={f['diverged']}"
    return out


def with_exp(op, model_line):
    tr = fields(model_line).get("trail") if model_line.startswith("frames=") or "trail=" in model_line else None
    return op if tr is None else op + " ; exp=" + tr


def strip_ids(line):
    p = parse_out(line)
    if p is None:
        return line
    toks, live = p
    return "frames=" + ",".join(t.split(":")[0] for t in toks) + " live=" + ",".join(live)


def oracle_all(toks):
    """The property statement on a decoded frame sequence: indices of the channel pushes that lie outside a
    [subscribe reply/push, unsubscribe reply/push) bracket (and of undecodable / foreign frames)."""
    is_open, bad = False, []
    for i, t in enumerate(toks):
        k = t.split(":")[0]
        if k == "S":
            is_open = True
        elif k == "E":
            is_open = False
        elif k in ("P0", "PH", "J", "L"):
            if not is_open:
                bad.append(i)
        elif k in ("BAD", "push?", "reply?") or k.startswith("other"):
            bad.append(i)
    return bad


def oracle(toks):
    bad = oracle_all(toks)
    return bad[0] if bad else None


def label_of_token(tok):
    """P0:p5 -> B:p:5 ; J:j3 -> B:j:3"""
    if ":" not in tok:
        return None
    ident = tok.split(":", 1)[1]
    return f"B:{ident[0]}:{ident[1:]}" if len(ident) >= 2 else None


class Runner:
    def __init__(self, ctx, binary):
        self.ctx, self.binary = ctx, binary

    def impl(self, ops):
        # a hang (goroutine sent into a mutex) is bounded and becomes a harness error, never a violation
        return self.ctx.go_run(self.binary, TEST, ops, timeout=max(120, len(ops) // 4))

    def model(self, ops):
        if not ops:
            return []
        if getattr(self, "_drv", None) is None:
            self._drv = self.ctx.lean_driver_build()
            if self._drv is None:
                self.driver_broken = True
                return []
        return self.ctx.run_lines([self._drv], ops)

    def preclass_many(self, items):
        """items: [(cfg, labels, toks, idx)] -> [(inversion, push kind, committed)].  Uses the model state at
        the moment the offending push was enqueued: was a subscribe attempt in flight, had it committed?"""
        prefix_ops, where = [], []
        for n, (cfg, labels, toks, idx) in enumerate(items):
            lab = label_of_token(toks[idx])
            labq = lab.replace("B:", "Bq:", 1) if lab else None     # started while parked in PubSubSync
            t = max((i for i, l in enumerate(labels) if l in (lab, labq)), default=None) if lab else None
            if t is not None:
                where.append(n)
                prefix_ops.append(run_line(cfg, labels[:t]))
        outs = self.model(prefix_ops)
        gate = {}
        for n, o in zip(where, outs):
            p = parse_out(o)
            if p:
                for a in p[1]:
                    if a.startswith("S@"):
                        gate[n] = a[2:]
        res = []
        for n, (cfg, labels, toks, idx) in enumerate(items):
            s_gate = gate.get(n)
            if s_gate is not None or "S" not in [x.split(":")[0] for x in toks[:idx]]:
                inv = "push-before-subscribe"
            else:
                inv = "push-after-unsubscribe"
            res.append((inv, toks[idx].split(":")[0], s_gate == "pushtrace"))
        return res

    def preclass(self, cfg, labels, toks, idx):
        return self.preclass_many([(cfg, labels, toks, idx)])[0]

    def fails(self, cfg, cands, want):
        """for a batch of candidate label lists: the first one that is an enabled path of the model and still
        violates the property with the same (inversion, push kind).  Evaluated on the model (which every
        scenario of the run is compared with, frame by frame); the result is confirmed on the implementation."""
        ops = [run_line(cfg, c) for c in cands]
        mod = self.model(ops)
        items, idxs = [], []
        for i, m in enumerate(mod):
            p = parse_out(m)
            if not p:
                continue
            for k in oracle_all(p[0]):
                items.append((cfg, cands[i], p[0], k))
                idxs.append(i)
        for i, (inv, kind, _) in zip(idxs, self.preclass_many(items)):
            if (inv, kind) == want:
                return i
        return None

    def shrink(self, cfg, labels, want):
        cur = list(labels)
        chunk = max(1, len(cur) // 2)
        budget = 60
        while chunk >= 1 and budget > 0:
            cands = [cur[:i] + cur[i + chunk:] for i in range(0, len(cur), chunk)]
            cands = [c for c in cands if c and len(c) < len(cur)]
            budget -= 1
            i = self.fails(cfg, cands, want) if cands else None
            if i is not None:
                cur = cands[i]
                chunk = max(1, min(chunk, len(cur) // 2))
            elif chunk == 1:
                break
            else:
                chunk //= 2
        # pairs that only make sense together (WH … WR, the two steps of a broadcaster)
        progress = True
        while progress and budget > 0 and len(cur) <= 40:
            budget -= 1
            cands = [[l for k, l in enumerate(cur) if k not in (i, j)]
                     for i in range(len(cur)) for j in range(i + 1, len(cur))]
            i = self.fails(cfg, cands, want) if cands else None
            progress = i is not None
            if progress:
                cur = cands[i]
        return cur

    def signature(self, cfg, labels, toks, idx):
        inv, kind, committed = self.preclass(cfg, labels, toks, idx)
        # `synced`: a publication with offset on a positioned subscription, i.e. one PubSubSync must hold back
        # until StopBuffering (C10-2, the known commit-before-push window, is about pushes it does not cover)
        return {"inversion": inv, "push": kind, "committed": committed, "synced": kind == "PH" and cfg["pos"],
                "ss": cfg["ss"], "pos": cfg["pos"], "bat": cfg["bat"], "rwq": cfg["rwq"],
                "held_writer": "WH" in labels, "batch_timer": "T" in labels}


def local_findings():
    try:
        return json.load(open(os.path.join(VERIF, "props", "C10", "findings.json"))).get("findings", [])
    except FileNotFoundError:
        return []


def install_local_known(ctx):
    """known_findings.json is the union of props/*/findings.json (regenerated by the coordinator); also
    consult this property's own file so the check behaves the same before and after that merge."""
    glob_match = ctx._match_known

    def match(signature):
        hit = glob_match(signature)
        if hit is not None:
            return hit
        for e in local_findings():
            m = e.get("match") or {}
            if e.get("property") == ctx.prop and e.get("status") == "known" and m and \
                    all(signature.get(k) == v for k, v in m.items()):
                return e
        return None
    ctx._match_known = match


def gen_ops(ctx, n):
    ops = []
    for _ in range(n):
        r = ctx.rng.random()
        cfg = {"ss": ctx.rng.random() < 0.4, "pos": ctx.rng.random() < 0.5,
               "bat": ctx.rng.random() < 0.3, "rwq": ctx.rng.random() < 0.3}
        ln = ctx.rng.choice([6, 10, 14, 20, 28, 40]) if r < 0.9 else ctx.rng.randint(1, 5)
        nums = [ctx.rng.randint(0, 9999) for _ in range(ln)]
        ops.append(f"gen {cfg_str(cfg)} | " + " ".join(map(str, nums)))
    return ops


def run(ctx):
    install_local_known(ctx)
    ctx.rule = ("schedules are paths of the Lean model's transition relation chosen by the PRNG over {client-side, "
                "server-side} x {positioned, not} x {per-channel batching on/off} x {ReplyWithoutQueue on/off}: "
                "subscribe and unsubscribe (command and server API) advanced gate by gate, publications "
                "(offset 0 / offset > 0), joins and leaves injected at every gate and parked between the "
                "subscribed check and the enqueue, writer goroutine held/released, batch timer; "
                "non-trivial = at least one channel push reached the transport; distinct = distinct schedule")
    ctx.assumptions = [
        "a subscribe attempt and an unsubscribe call for the same channel of one connection do not overlap "
        "(then untagged frames identify the subscription they belong to); failing subscribe attempts, "
        "connection close and the 5 s unsubscribe wait-gate are not scheduled",
        "MemoryBroker: one publication per channel in flight (pubLock)"]
    proofs_ok = ctx.lean_obligations()
    ctx.log("lean obligations done")
    binary = ctx.go_test_binary(".", HARNESS)
    ctx.log("harness built")
    if binary is None:
        ctx.violation("correspondence", "harness no longer builds against package centrifuge",
                      signature={"kind": "harness-build"}, replay={"log": getattr(ctx, "build_error", "")},
                      no_input=True)
        return
    R = Runner(ctx, binary)
    # ---- schedules
    if ctx.replay:
        run_ops = [op.partition(";")[0].strip() for op in json.load(open(ctx.replay)).get("ops", [])]
        pm = R.model(run_ops)
        run_ops = [with_exp(op, m) for op, m in zip(run_ops, pm)]
        expected = [core(m) for m in pm]
    else:
        corpus = [l.strip() for l in open(os.path.join(VERIF, "props/C10/corpus.ops"))
                  if l.strip() and not l.startswith("#")]
        known_ops = [op for e in local_findings() for op in (e.get("replay") or {}).get("ops", [])]
        gens = gen_ops(ctx, ctx.scale(400, 6000))
        gout = R.model(gens)
        plain = known_ops + corpus
        pm = R.model(plain)
        run_ops = [with_exp(op, m) for op, m in zip(plain, pm)]
        expected = [core(m) for m in pm]
        for g, o in zip(gens, gout):
            if not o.startswith("labels="):
                ctx.notes.append("driver gen failed: " + o[:80])
                continue
            labs, _, rest = o.partition(" ")
            labels = [l for l in labs[len("labels="):].split(",") if l]
            cfg, _ = parse_run(g)
            run_ops.append(with_exp(run_line(cfg, labels), rest))
            expected.append(core(rest))
    ctx.log(f"{len(run_ops)} schedules generated")
    impl = R.impl(run_ops)
    ctx.log("implementation runs done")
    if ctx.last_go_crash:
        ctx.notes.append("harness process: " + str(ctx.last_go_crash)[-400:])

    # ---- oracle on the implementation's frames
    seen_classes = {}
    harness_errors = 0
    scen = []          # (op, cfg, labels, toks, bad, out)
    for i, op in enumerate(run_ops):
        out = impl[i] if i < len(impl) else "<missing>"
        cfg, labels = parse_run(op)
        if out.startswith("frames=") and "diverged" in fields(out):
            # the harness stopped where the implementation left the model's path and released the parked
            # actors in key order: the schedule that was executed is this prefix
            labels = labels[:int(fields(out)["diverged"]) + 1]
        p = parse_out(out)
        if p is None:
            harness_errors += 1
            ctx.count("harness-error")
            continue
        toks, _ = p
        ctx.record(op.partition(";")[0].strip(),
                   nontrivial=any(t.split(":")[0] in ("P0", "PH", "J", "L") for t in toks))
        ctx.count("cfg:" + ("".join(k for k in CFG_KEYS if cfg[k]) or "-"))
        for t in toks:
            ctx.count("frame:" + t.split(":")[0])
        bad = oracle_all(toks)
        ctx.count("oracle:" + ("violated" if bad else "holds"))
        if bad:
            scen.append((op, cfg, labels, toks, bad, out))
    # one model call classifies every offending push of the run
    flat = [(cfg, labels, toks, k) for (_, cfg, labels, toks, bad, _) in scen for k in bad]
    pcs_all = R.preclass_many(flat)
    pos = 0
    for (op, cfg, labels, toks, bad, out) in scen:
        pcs = pcs_all[pos:pos + len(bad)]
        pos += len(bad)
        p = (toks, [])
        for idx, (inv, kind, committed) in zip(bad, pcs):
            cls = (inv, kind, committed, cfg["ss"], cfg["pos"]) if inv == "push-before-subscribe" else \
                (inv, kind, cfg["rwq"], cfg["bat"], "WH" in labels, "T" in labels)
            seen_classes[cls] = seen_classes.get(cls, 0) + 1
            if seen_classes[cls] > 1:
                continue
            small = R.shrink(cfg, labels, (inv, kind))
            ctx.log(f"shrunk {cls}: {len(labels)} -> {len(small)} labels")
            sop = run_line(cfg, small)
            sout = R.impl([sop])
            sp = parse_out(sout[0]) if sout else None
            sbad = oracle_all(sp[0]) if sp else []
            sidx = None
            if sbad:
                for k, pc in zip(sbad, R.preclass_many([(cfg, small, sp[0], k) for k in sbad])):
                    if pc[:2] == (inv, kind):
                        sidx = k
                        break
            if sidx is None:
                small, sop, sp, sidx, sout = labels, op, p, idx, [out]   # not preserved on the implementation
            sig = R.signature(cfg, small, sp[0], sidx)
            ctx.violation("property",
                          f"{sig['inversion']}: frame {sp[0][sidx]} outside the subscription bracket; "
                          f"frames {','.join(sp[0])}",
                          signature=sig, replay={"ops": [sop], "impl": sout, "original_op": op})
    ctx.extra["violation_classes_seen"] = {str(k): v for k, v in seen_classes.items()}
    ctx.extra["harness_errors_dropped"] = harness_errors
    not_repro = [e["id"] for e in local_findings() if e.get("status") == "known" and e["id"] not in
                 [k.get("id") for k in ctx.known_hits]]
    if not_repro and not ctx.replay:
        ctx.extra["known_findings_not_reproduced"] = not_repro

    # ---- correspondence model vs implementation
    ctx.traces_validated = len(run_ops)
    ndiff = 0
    for i, op, a, b in diff_lines(run_ops, [core(x) for x in impl], expected):
        if not a.startswith("frames="):
            continue            # harness error: dropped and counted above, never a violation
        ndiff += 1
        if ndiff <= 3:
            cfg, labels = parse_run(op)
            ctx.violation("correspondence", f"model and implementation differ: impl `{a}` model `{b}`",
                          signature={"kind": "diff", "impl": a[:60], "model": b[:60]},
                          replay={"ops": [op], "impl": [a], "model": [b],
                                  "correspondence": "Drivers/C10.lean vs client.go/hub.go on a gate-controlled schedule"},
                          no_input=True)
    ctx.extra["disagreements"] = ndiff
    if harness_errors > max(5, len(run_ops) // 20):
        ctx.notes.append(f"{harness_errors} scenarios dropped as harness errors")
    if not proofs_ok:
        ctx.proof_broken()
