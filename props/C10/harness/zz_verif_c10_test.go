//go:build verif

package centrifuge

// Verification harness for C10 (injected with `go test -overlay`, never part of the repo).
//
// One op line = one scenario, executed inside a testing/synctest bubble against a real Node with
// a real Client:
//
//	run ss=<0|1> pos=<0|1> bat=<0|1> rwq=<0|1> | <label> <label> ...
//
// Labels (each advances one actor from the gate it is parked at to its next gate or to its end;
// quiescence is detected with synctest.Wait, never with sleeps or real-time timeouts):
//
//	S        subscriber (client-side subscribe command, or Client.Subscribe when ss=1)
//	Uc / Us  unsubscriber (client unsubscribe command / server-side Client.Unsubscribe)
//	B:k:n    broadcaster number n of kind k in {p (publication without history, offset 0),
//	         h (publication with history, offset > 0), j (join), l (leave)}
//	Bq:h:n   start publication n (with history) while the subscriber holds the locked recovery buffer:
//	         the goroutine is expected to sit on PubSubSync's pubBufferMu; because synctest.Wait cannot
//	         see a mutex wait, the harness spins (runtime.Gosched) until the goroutine is finished, parked
//	         at a gate, or its state in the runtime's goroutine dump is a mutex wait; the only label
//	         allowed next is S, whose StopBuffering lets it continue
//	WH / WR  hold / release the connection's writer goroutine (parked in OnTransportWrite)
//	T        let virtual time pass (per-channel batch delay elapses)
//
// Gates (no source hooks): OnSubscribe handler, Broker.Subscribe, PresenceManager.AddPresence,
// Broker.History, trace-level LogHandler (subscribe reply trace / subscribe push trace /
// publication trace between the subscribed check and the enqueue / join+leave trace before the
// check), PresenceManager.RemovePresence, OnUnsubscribe handler, OnTransportWrite.
//
// Output: `frames=<tok,...> live=<actor@gate,...>` where the tokens are the decoded frames that
// reached Transport.Write/WriteMany after the connect reply, in order:
// S (subscribe reply without error, or subscribe push), E (unsubscribe reply or push),
// P0:<id> / PH:<id> (publication push with offset 0 / > 0), J:<id>, L:<id>, X:<code> (error reply).

import (
	"bufio"
	"context"
	"encoding/json"
	"fmt"
	"os"
	"runtime"
	"sort"
	"strings"
	"sync"
	"testing"
	"testing/synctest"
	"time"

	"github.com/centrifugal/protocol"
)

type vc10Gates struct {
	mu         sync.Mutex
	armed      bool
	holdWriter bool
	parked     map[string]chan struct{}
}

func (g *vc10Gates) gate(key string) {
	g.mu.Lock()
	if !g.armed {
		g.mu.Unlock()
		return
	}
	ch := make(chan struct{})
	g.parked[key] = ch
	g.mu.Unlock()
	<-ch
}

func (g *vc10Gates) parkedKeys() []string {
	g.mu.Lock()
	defer g.mu.Unlock()
	ks := make([]string, 0, len(g.parked))
	for k := range g.parked {
		ks = append(ks, k)
	}
	sort.Strings(ks)
	return ks
}

func (g *vc10Gates) release(key string) bool {
	g.mu.Lock()
	ch, ok := g.parked[key]
	if ok {
		delete(g.parked, key)
	}
	g.mu.Unlock()
	if ok {
		close(ch)
	}
	return ok
}

type vc10Broker struct {
	*MemoryBroker
	g *vc10Gates
}

func (b *vc10Broker) Subscribe(chs ...string) error {
	b.g.gate("S@brokersub")
	return b.MemoryBroker.Subscribe(chs...)
}

func (b *vc10Broker) History(ch string, opts HistoryOptions) ([]*Publication, StreamPosition, error) {
	b.g.gate("S@history")
	return b.MemoryBroker.History(ch, opts)
}

type vc10Presence struct {
	*MemoryPresenceManager
	g *vc10Gates
}

func (p *vc10Presence) AddPresence(ch string, uid string, info *ClientInfo) error {
	p.g.gate("S@addpres")
	return p.MemoryPresenceManager.AddPresence(ch, uid, info)
}

func (p *vc10Presence) RemovePresence(ch string, clientID string, userID string) error {
	p.g.gate("U@rmpres")
	return p.MemoryPresenceManager.RemovePresence(ch, clientID, userID)
}

type vc10Transport struct {
	mu     sync.Mutex
	frames [][]byte
}

func (t *vc10Transport) Write(m []byte) error {
	t.mu.Lock()
	t.frames = append(t.frames, append([]byte(nil), m...))
	t.mu.Unlock()
	return nil
}
func (t *vc10Transport) WriteMany(ms ...[]byte) error {
	t.mu.Lock()
	for _, m := range ms {
		t.frames = append(t.frames, append([]byte(nil), m...))
	}
	t.mu.Unlock()
	return nil
}
func (t *vc10Transport) Close(Disconnect) error           { return nil }
func (t *vc10Transport) Name() string                     { return "verif" }
func (t *vc10Transport) AcceptProtocol() string           { return "" }
func (t *vc10Transport) Protocol() ProtocolType           { return ProtocolTypeJSON }
func (t *vc10Transport) ProtocolVersion() ProtocolVersion { return ProtocolVersion2 }
func (t *vc10Transport) Unidirectional() bool             { return false }
func (t *vc10Transport) Emulation() bool                  { return false }
func (t *vc10Transport) DisabledPushFlags() uint64        { return PushFlagDisconnect }
func (t *vc10Transport) PingPongConfig() PingPongConfig {
	return PingPongConfig{PingInterval: time.Hour, PongTimeout: time.Minute}
}

func vc10OnWriterGoroutine() bool {
	buf := make([]byte, 8192)
	n := runtime.Stack(buf, false)
	s := string(buf[:n])
	return strings.Contains(s, "(*writer).waitSendMessage") || strings.Contains(s, "(*writer).flush")
}

// vc10TraceKey maps a trace-level log entry to a gate key ("" = no gate).
func vc10TraceKey(e LogEntry) string {
	if e.Level != LogLevelTrace || e.Message != "-out->" {
		return ""
	}
	if ps, ok := e.Fields["push"].(string); ok {
		var p struct {
			Channel string `json:"channel"`
			Pub     *struct {
				Data json.RawMessage `json:"data"`
			} `json:"pub"`
			Join *struct {
				Info struct {
					Client string `json:"client"`
				} `json:"info"`
			} `json:"join"`
			Leave *struct {
				Info struct {
					Client string `json:"client"`
				} `json:"info"`
			} `json:"leave"`
			Subscribe *json.RawMessage `json:"subscribe"`
		}
		if json.Unmarshal([]byte(ps), &p) != nil || p.Channel != "ch" {
			return ""
		}
		switch {
		case p.Pub != nil:
			return "B:" + vc10DataID(p.Pub.Data) + "@trace"
		case p.Join != nil:
			return "B:" + p.Join.Info.Client + "@trace"
		case p.Leave != nil:
			return "B:" + p.Leave.Info.Client + "@trace"
		case p.Subscribe != nil:
			return "S@pushtrace"
		}
		return ""
	}
	if rs, ok := e.Fields["reply"].(string); ok {
		var r struct {
			Error     *json.RawMessage `json:"error"`
			Subscribe *json.RawMessage `json:"subscribe"`
		}
		if json.Unmarshal([]byte(rs), &r) == nil && r.Subscribe != nil && r.Error == nil {
			return "S@replytrace"
		}
	}
	return ""
}

// vc10DataID extracts the id from a publication payload `{"b":"<id>"}` (also when the payload
// was rendered as a base64 JSON string).
func vc10DataID(raw json.RawMessage) string {
	var o struct {
		B string `json:"b"`
	}
	if json.Unmarshal(raw, &o) == nil && o.B != "" {
		return o.B
	}
	var s []byte
	if json.Unmarshal(raw, &s) == nil {
		if json.Unmarshal(s, &o) == nil {
			return o.B
		}
	}
	return "?"
}

func vc10Token(frame []byte) string {
	dec := protocol.NewJSONReplyDecoder(frame)
	r, err := dec.Decode()
	if err != nil || r == nil {
		return "BAD"
	}
	if r.Push != nil {
		p := r.Push
		id := func(ci *protocol.ClientInfo) string {
			if ci == nil {
				return "?"
			}
			return ci.Client
		}
		pre := ""
		if p.Channel != "ch" {
			pre = "other:"
		}
		switch {
		case p.Pub != nil:
			if p.Pub.Offset == 0 {
				return pre + "P0:" + vc10DataID(json.RawMessage(p.Pub.Data))
			}
			return pre + "PH:" + vc10DataID(json.RawMessage(p.Pub.Data))
		case p.Join != nil:
			return pre + "J:" + id(p.Join.Info)
		case p.Leave != nil:
			return pre + "L:" + id(p.Leave.Info)
		case p.Subscribe != nil:
			return pre + "S"
		case p.Unsubscribe != nil:
			return pre + "E"
		case p.Disconnect != nil:
			return "D"
		}
		return "push?"
	}
	switch {
	case r.Error != nil:
		return fmt.Sprintf("X:%d", r.Error.Code)
	case r.Connect != nil:
		return "C"
	case r.Subscribe != nil:
		return "S"
	case r.Unsubscribe != nil:
		return "E"
	}
	return "reply?"
}

type vc10Actor struct {
	name string
	done chan struct{}
}

// vc10BlockedStart marks the goroutine of a `Bq` publication in the runtime's goroutine dump.
//
//go:noinline
func vc10BlockedStart(fn func()) { fn() }

// vc10MarkedGoroutineState returns the wait state of the goroutine running vc10BlockedStart
// (the text between the brackets of its `goroutine N [state]:` header), "" if there is none.
func vc10MarkedGoroutineState() string {
	buf := make([]byte, 4<<20)
	n := runtime.Stack(buf, true)
	for _, blk := range strings.Split(string(buf[:n]), "\n\n") {
		if !strings.Contains(blk, "vc10BlockedStart") {
			continue
		}
		head, _, _ := strings.Cut(blk, "\n")
		if i := strings.Index(head, "["); i >= 0 {
			if j := strings.Index(head[i:], "]"); j > 0 {
				return head[i+1 : i+j]
			}
		}
	}
	return ""
}

type vc10World struct {
	syncing string // actor name of a publication sitting in PubSubSync ("" if none)
	t      *testing.T
	g      *vc10Gates
	node   *Node
	client *Client
	tr     *vc10Transport
	ss     bool
	pos    bool
	actors map[string]*vc10Actor // live actors by name ("S", "U", "B:<id>")
	cmdID  uint32
	errs   []string
}

func (w *vc10World) finished(a *vc10Actor) bool {
	select {
	case <-a.done:
		return true
	default:
		return false
	}
}

func (w *vc10World) spawn(name string, fn func()) {
	a := &vc10Actor{name: name, done: make(chan struct{})}
	w.actors[name] = a
	go func() {
		defer close(a.done)
		defer func() {
			if r := recover(); r != nil {
				w.g.mu.Lock()
				w.errs = append(w.errs, fmt.Sprintf("panic:%s:%v", name, r))
				w.g.mu.Unlock()
			}
		}()
		fn()
	}()
}

// gateOf returns the gate key the actor is parked at ("" if none).
func (w *vc10World) gateOf(name string) string {
	for _, k := range w.g.parkedKeys() {
		if strings.HasPrefix(k, name+"@") {
			return k
		}
	}
	return ""
}

// advance starts the actor (when not live) or releases it from its gate, then waits for quiescence.
func (w *vc10World) advance(name string, start func()) {
	a, live := w.actors[name]
	if live && w.finished(a) {
		delete(w.actors, name)
		live = false
	}
	if !live {
		w.spawn(name, start)
	} else {
		k := w.gateOf(name)
		if k == "" {
			w.errs = append(w.errs, "notparked:"+name)
			return
		}
		w.g.release(k)
	}
	synctest.Wait()
	a = w.actors[name]
	if w.finished(a) {
		delete(w.actors, name)
	} else if w.gateOf(name) == "" {
		w.errs = append(w.errs, "blocked:"+name)
	}
	if q := w.syncing; q != "" {
		// the publication that sat in PubSubSync went on (to its trace gate, or to its end)
		if qa, ok := w.actors[q]; ok && w.finished(qa) {
			delete(w.actors, q)
			w.syncing = ""
		} else if w.gateOf(q) != "" {
			w.syncing = ""
		}
	}
}

// liveList is the parked-actor set in the model's vocabulary (gate keys plus `<actor>@sync`).
func (w *vc10World) liveList() []string {
	live := w.g.parkedKeys()
	if w.syncing != "" {
		live = append(live, w.syncing+"@sync")
		sort.Strings(live)
	}
	return live
}

func (w *vc10World) nextID() uint32 {
	w.cmdID++
	return w.cmdID
}

func (w *vc10World) step(label string) {
	if w.syncing != "" && label != "S" {
		// synctest.Wait would never return while that goroutine waits for the mutex
		w.errs = append(w.errs, "syncblocked:"+label)
		return
	}
	switch {
	case label == "S":
		w.advance("S", func() {
			if w.ss {
				_ = w.client.Subscribe("ch", WithEmitPresence(true), WithPushJoinLeave(true), WithPositioning(w.pos))
			} else {
				w.client.HandleCommand(&protocol.Command{Id: w.nextID(), Subscribe: &protocol.SubscribeRequest{Channel: "ch"}}, 0)
			}
		})
	case label == "Uc":
		w.advance("U", func() {
			w.client.HandleCommand(&protocol.Command{Id: w.nextID(), Unsubscribe: &protocol.UnsubscribeRequest{Channel: "ch"}}, 0)
		})
	case label == "Us":
		w.advance("U", func() { w.client.Unsubscribe("ch") })
	case strings.HasPrefix(label, "Bq:"):
		parts := strings.Split(label, ":")
		if len(parts) != 3 || parts[1] != "h" || w.syncing != "" {
			w.errs = append(w.errs, "badlabel:"+label)
			return
		}
		id := "h" + parts[2]
		name := "B:" + id
		w.spawn(name, func() {
			vc10BlockedStart(func() {
				_, _ = w.node.Publish("ch", []byte(`{"b":"`+id+`"}`), WithHistory(100, time.Hour))
			})
		})
		state := "unknown"
		for i := 0; i < 4000000 && state == "unknown"; i++ {
			switch {
			case w.finished(w.actors[name]):
				state = "done"
			case w.gateOf(name) != "":
				state = "gate"
			case i%256 == 255:
				if st := vc10MarkedGoroutineState(); strings.Contains(st, "Mutex") || strings.Contains(st, "semacquire") {
					state = "sync"
				}
			}
			runtime.Gosched()
		}
		switch state {
		case "sync":
			w.syncing = name
		case "done":
			delete(w.actors, name)
		case "unknown":
			w.errs = append(w.errs, "unsettled:"+name)
		}
	case strings.HasPrefix(label, "B:"):
		parts := strings.Split(label, ":")
		if len(parts) != 3 {
			w.errs = append(w.errs, "badlabel:"+label)
			return
		}
		kind, id := parts[1], parts[1]+parts[2]
		w.advance("B:"+id, func() {
			data := []byte(`{"b":"` + id + `"}`)
			switch kind {
			case "p":
				_, _ = w.node.Publish("ch", data)
			case "h":
				_, _ = w.node.Publish("ch", data, WithHistory(100, time.Hour))
			case "j":
				_ = w.node.publishJoin("ch", &ClientInfo{ClientID: id, UserID: "other"})
			case "l":
				_ = w.node.publishLeave("ch", &ClientInfo{ClientID: id, UserID: "other"})
			}
		})
	case label == "WH":
		w.g.mu.Lock()
		w.g.holdWriter = true
		w.g.mu.Unlock()
	case label == "WR":
		w.g.mu.Lock()
		w.g.holdWriter = false
		w.g.mu.Unlock()
		w.g.release("W@write")
		synctest.Wait()
	case label == "T":
		time.Sleep(50 * time.Millisecond)
		synctest.Wait()
	default:
		w.errs = append(w.errs, "badlabel:"+label)
	}
}

func (w *vc10World) tokens() []string {
	w.tr.mu.Lock()
	defer w.tr.mu.Unlock()
	out := []string{}
	for _, f := range w.tr.frames {
		tok := vc10Token(f)
		if tok == "C" {
			continue
		}
		out = append(out, tok)
	}
	return out
}

func vc10Scenario(t *testing.T, line string) (res string) {
	parts := strings.SplitN(line, "|", 2)
	if len(parts) != 2 {
		return "bad-op"
	}
	head := strings.Fields(parts[0])
	if len(head) == 0 || head[0] != "run" {
		return "bad-op"
	}
	cfg := map[string]bool{}
	for _, kv := range head[1:] {
		p := strings.SplitN(kv, "=", 2)
		if len(p) != 2 {
			return "bad-op"
		}
		cfg[p[0]] = p[1] == "1"
	}
	labelPart, expPart, hasExp := strings.Cut(parts[1], ";")
	labels := strings.Fields(labelPart)
	var exp []string
	if hasExp {
		expPart = strings.TrimSpace(expPart)
		if strings.HasPrefix(expPart, "exp=") {
			exp = strings.Split(strings.TrimPrefix(expPart, "exp="), "/")
		}
	}

	func() {
		g := &vc10Gates{parked: map[string]chan struct{}{}}
		w := &vc10World{t: t, g: g, ss: cfg["ss"], pos: cfg["pos"], actors: map[string]*vc10Actor{}}
		defer func() {
			if r := recover(); r != nil {
				res = fmt.Sprintf("PANIC %v", r)
			}
		}()
		conf := Config{
			LogLevel: LogLevelTrace,
			LogHandler: func(e LogEntry) {
				if k := vc10TraceKey(e); k != "" {
					g.gate(k)
				}
			},
		}
		if cfg["bat"] {
			conf.GetChannelBatchConfig = func(string) ChannelBatchConfig {
				return ChannelBatchConfig{MaxDelay: 10 * time.Millisecond}
			}
		}
		node, err := New(conf)
		if err != nil {
			res = "ERR new-node"
			return
		}
		w.node = node
		mb, _ := NewMemoryBroker(node, MemoryBrokerConfig{})
		node.SetBroker(&vc10Broker{MemoryBroker: mb, g: g})
		mp, _ := NewMemoryPresenceManager(node, MemoryPresenceManagerConfig{})
		node.SetPresenceManager(&vc10Presence{MemoryPresenceManager: mp, g: g})
		rwq := cfg["rwq"]
		node.OnConnecting(func(context.Context, ConnectEvent) (ConnectReply, error) {
			return ConnectReply{Credentials: &Credentials{UserID: "u1"}, ReplyWithoutQueue: rwq}, nil
		})
		pos := w.pos
		node.OnConnect(func(c *Client) {
			c.OnSubscribe(func(e SubscribeEvent, cb SubscribeCallback) {
				g.gate("S@onsub")
				cb(SubscribeReply{Options: SubscribeOptions{EmitPresence: true, PushJoinLeave: true, EnablePositioning: pos}}, nil)
			})
			c.OnUnsubscribe(func(UnsubscribeEvent) { g.gate("U@onunsub") })
		})
		node.OnTransportWrite(func(_ *Client, _ TransportWriteEvent) bool {
			g.mu.Lock()
			hold := g.holdWriter
			g.mu.Unlock()
			if hold && vc10OnWriterGoroutine() {
				g.gate("W@write")
			}
			return true
		})
		if err := node.Run(); err != nil {
			res = "ERR run"
			return
		}
		w.tr = &vc10Transport{}
		client, closeFn, err := NewClient(context.Background(), node, w.tr)
		if err != nil {
			res = "ERR new-client"
			return
		}
		w.client = client
		client.HandleCommand(&protocol.Command{Id: w.nextID(), Connect: &protocol.ConnectRequest{}}, 0)
		synctest.Wait()
		g.mu.Lock()
		g.armed = true
		g.mu.Unlock()

		diverged := -1
		for i, l := range labels {
			w.step(l)
			if len(w.errs) > 0 {
				break
			}
			// the model's parked-actor set after every label (when given): stop at the first difference,
			// before a later label could send a goroutine into a lock the model does not know to be held
			if i < len(exp) && strings.Join(w.liveList(), ",") != exp[i] {
				diverged = i
				break
			}
		}
		toks := w.tokens()
		live := w.liveList()
		g.mu.Lock()
		errs := append([]string(nil), w.errs...)
		g.mu.Unlock()
		res = "frames=" + strings.Join(toks, ",") + " live=" + strings.Join(live, ",")
		if len(errs) > 0 {
			res = "HARNESS-ERR " + strings.Join(errs, ",") + " " + res
		}
		if diverged >= 0 {
			res += fmt.Sprintf(" diverged=%d", diverged)
		}

		// cleanup: open all gates, let every actor finish, then close client and node
		g.mu.Lock()
		g.armed = false
		g.holdWriter = false
		g.mu.Unlock()
		// release the parked actors one at a time in key order (broadcasters, subscriber, unsubscriber,
		// writer): lock holders before lock takers, and a deterministic continuation of the schedule
		for i := 0; i < 200; i++ {
			ks := g.parkedKeys()
			if len(ks) == 0 {
				break
			}
			pick := ks[0]
			if w.syncing != "" {
				// a goroutine sits on pubBufferMu: only the subscriber's step can be waited for
				for _, k := range ks {
					if strings.HasPrefix(k, "S@") {
						pick = k
					}
				}
				w.syncing = ""
			}
			g.release(pick)
			synctest.Wait()
		}
		if diverged >= 0 {
			res += " final=" + strings.Join(w.tokens(), ",")
		}
		_ = closeFn()
		synctest.Wait()
		// time stops when the bubble's main goroutine exits: let delayed jobs (dissolver, timers) run first
		time.Sleep(3 * time.Second)
		synctest.Wait()
		_ = node.Shutdown(context.Background())
		time.Sleep(3 * time.Second)
		synctest.Wait()
	}()
	return res
}

func TestVerifC10(t *testing.T) {
	in, err := os.Open(os.Getenv("VERIF_OPS"))
	if err != nil {
		t.Skip("no VERIF_OPS")
	}
	defer in.Close()
	out, err := os.Create(os.Getenv("VERIF_OUT"))
	if err != nil {
		t.Fatal(err)
	}
	defer out.Close()
	wr := bufio.NewWriter(out)
	defer wr.Flush()
	sc := bufio.NewScanner(in)
	sc.Buffer(make([]byte, 1<<20), 1<<26)
	var lines []string
	for sc.Scan() {
		lines = append(lines, sc.Text())
	}
	// All scenarios of one process run inside ONE synctest bubble: internal/timers keeps timers in a
	// global sync.Pool, and a timer created in one bubble must not be reused in another one.  Every
	// scenario ends with all of its goroutines finished (node shut down, virtual time advanced).
	synctest.Test(t, func(t *testing.T) {
		for _, line := range lines {
			if line == "" || strings.HasPrefix(line, "#") {
				fmt.Fprintln(wr, "#")
				continue
			}
			fmt.Fprintln(wr, vc10Scenario(t, line))
			wr.Flush()
		}
	})
}
