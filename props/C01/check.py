"""C01 — positioned stream delivery is gap-free, duplicate-free and ordered.

Proof: lean/CentrifugeVerif/Props/C01.lean over Model/Live.lean (writePublicationUpdatePosition),
Model/SubReply.lean (positioned part of subscribeCmd) and Model/Merge.lean.
Tie: the real Client/Node with a scripted Broker (history answer + in-window PUB/SUB deliveries
injected while the subscriber is inside its history read) and scripted live deliveries, compared
line by line with the Lean driver; plus the property statement evaluated on what the real
transport received.
"""
import json
import os
from concurrent.futures import ThreadPoolExecutor

HARNESS = ["props/C01/harness/root/zz_verif_c01_test.go"]
HARNESS_SYNC = ["props/C01/harness/internal__recovery/zz_verif_c01sync_test.go"]


def regen(ctx):
    """T1: regenerate Gen/SubscribeOrder.lean from the current client.go."""
    import sys
    sys.path.insert(0, os.path.dirname(os.path.abspath(__file__)))
    import extract_order
    from vlib.core import REPO
    ctx.write_gen("SubscribeOrder.lean", extract_order.generate(REPO))


def gen_sync(rng):
    toks = []
    off = 1
    for _ in range(rng.randint(1, 3)):
        for _ in range(rng.choice([0, 0, 1, 2])):
            toks.append(f"pub:{off}"); off += 1
        toks.append("start")
        for _ in range(rng.choice([0, 1, 2, 4])):
            toks.append(f"pub:{off}"); off += 1
        if rng.random() < 0.85:
            toks.append("lock")
            if rng.random() < 0.6:
                toks.append(f"pub:{off}"); off += 1       # parks on pubBufferMu until stop
        toks.append("stop")
    for _ in range(rng.choice([0, 1, 2])):
        toks.append(f"pub:{off}"); off += 1
    return "sync " + " ".join(toks)


def oracle_sync(op, out):
    """PubSubSync contract used by C01(c): while a subscribe is in flight every publication is buffered
    (and handed over by lock, in order, exactly once) or parked until stop and then delivered live;
    outside a subscribe it is delivered live at once."""
    toks = op.split()[1:]
    outs = out.split()
    if out.startswith("PANIC"):
        return "panic in PubSubSync"
    if out.startswith("harness-error") or len(outs) != len(toks):
        return None
    state, buffered = "idle", []
    for t, o in zip(toks, outs):
        if t == "start":
            state, buffered = "buffering", []
        elif t == "lock":
            if state == "buffering":
                exp = "lock[" + ",".join(buffered) + "]"
                if o != exp:
                    return f"lock handed over {o}, expected {exp} (publications buffered since start, in order)"
                state, buffered = "locked", []
            else:
                if o != "lock[]":
                    return f"lock without subscribe returned {o}"
        elif t == "stop":
            if state == "locked" and not (o.startswith("stop[")):
                return "bad stop output " + o
            if "b" in o:
                return "a publication parked until StopBuffering was put into a buffer nobody will read (lost)"
            state = "idle"
        else:
            offv = t[4:]
            if state == "idle" and o != "l":
                return f"publication {offv} outside a subscribe was not delivered live ({o})"
            if state == "buffering":
                if o != "b":
                    return f"publication {offv} during a subscribe (before the buffer lock) was not buffered ({o})"
                buffered.append(offv)
            if state == "locked" and o != "p":
                return f"publication {offv} after the buffer lock did not wait for StopBuffering ({o})"
    return None


# ----------------------------------------------------------------------------- generator
def gen(rng):
    top = rng.choice([0, 1, 2, 3, 5, 8, 13, 20, 30])
    ep = 1
    keep = rng.randint(0, top) if top else 0
    pf = rng.choice([0.0, 0.0, 0.2, 0.5])
    fset = set()
    hist = list(range(top - keep + 1, top + 1))
    side = "s" if rng.random() < 0.2 else "c"
    rec = 1 if rng.random() < 0.8 else 0
    reject = 1 if (side == "c" and rng.random() < 0.1) else 0
    r = rng.random()
    if r < 0.35:
        reqoff = top
    elif r < 0.7 and hist:
        reqoff = rng.choice(hist + [hist[0] - 1]) if hist[0] > 0 else rng.choice(hist)
    elif r < 0.8:
        reqoff = max(0, (hist[0] if hist else top) - rng.randint(1, 3))
    elif r < 0.9:
        reqoff = top + rng.randint(1, 3)
    else:
        reqoff = 0
    reqep = rng.choice([1, 1, 1, 1, 0, 2])
    # in-window deliveries
    buf = []
    nb = rng.choice([0, 0, 1, 2, 3, 4])
    start = top + 1
    if rng.random() < 0.4 and top > 0:
        start = max(1, top - rng.randint(0, 2))          # overlap with history (published before the read)
    o = start
    for _ in range(nb):
        buf.append([o, 1])
        o += 1
    fault = rng.random()
    if buf and fault < 0.10:                               # in-window loss
        del buf[rng.randrange(len(buf))]
    elif fault < 0.16:                                     # stale copy
        buf.insert(rng.randrange(len(buf) + 1), [max(1, reqoff - rng.randint(0, 2)), 1])
    elif buf and fault < 0.20:                             # duplicate
        buf.insert(rng.randrange(len(buf) + 1), list(rng.choice(buf)))
    elif len(buf) > 1 and fault < 0.24:                    # reorder
        rng.shuffle(buf)
    elif fault < 0.27:                                     # far ahead
        buf.append([o + rng.randint(1, 4), 1])
    bep = ep if rng.random() < 0.95 else 2
    for b in buf:
        b[1] = bep
    # live deliveries
    nxt = max([top] + [b[0] for b in buf]) + 1
    live = []
    lep = ep
    for _ in range(rng.choice([0, 1, 2, 3, 5, 8])):
        f = rng.random()
        if f < 0.70:
            live.append([nxt, lep, 0]); nxt += 1
        elif f < 0.78:
            live.append([max(1, nxt - rng.randint(1, 3)), lep, 0])          # stale / duplicate
        elif f < 0.86:
            nxt += rng.randint(1, 3); live.append([nxt, lep, 0]); nxt += 1  # gap
        elif f < 0.885:
            lep = 2 if lep == 1 else 1; live.append([nxt, lep, 0]); nxt += 1  # epoch change
        elif f < 0.91:
            # stream lost and re-created: new epoch, offsets restart low (at or below the position)
            lep = 2 if lep == 1 else 1
            low = rng.randint(1, max(1, nxt - 1))
            live.append([low, lep, 0]); nxt = low + 1
        elif f < 0.95:
            live.append([nxt, lep, 1]); nxt += 1                             # lag
        else:
            live.append([nxt + 1, lep, 0]); live.append([nxt, lep, 0]); nxt += 2  # reorder
    allo = set(hist) | {b[0] for b in buf} | {l[0] for l in live}
    for x in allo:
        if rng.random() < pf:
            fset.add(x)
    mode = "burst" if rng.random() < 0.15 else "each"
    return {"side": side, "rec": rec, "reject": reject, "reqoff": reqoff, "reqep": reqep,
            "hist": hist, "top": top, "ep": ep, "buf": buf, "live": live, "fset": sorted(fset), "mode": mode}


def fmt(sc):
    f = set(sc["fset"])
    fl = lambda o: 1 if o in f else 0
    hist = ",".join(f"{o}:{fl(o)}" for o in sc["hist"]) or "-"
    buf = ",".join(f"{o}:{fl(o)}:{e}" for o, e in sc["buf"]) or "-"
    live = ",".join(f"{o}:{fl(o)}:{e}:{l}" for o, e, l in sc["live"]) or "-"
    return (f"sc side={sc['side']} rec={sc['rec']} reject={sc['reject']} reqoff={sc['reqoff']} reqep={sc['reqep']} "
            f"hist={hist} top={sc['top']} ep={sc['ep']} buf={buf} live={live} mode={sc['mode']}")


def parse(op):
    kv = dict(w.split("=", 1) for w in op.split()[1:])
    if op.startswith("rs "):
        return {"side": "c", "rec": 1, "reject": 0, "reqoff": int(kv["top"]), "reqep": 1, "hist": [], "top": int(kv["top"]),
                "ep": 1, "buf": [], "live": [[int(kv["top"]) + i + 1, 1, 0] for i in range(int(kv["n"]))], "fset": [],
                "mode": "resub"}

    def lst(s, n):
        if s in ("-", ""):
            return []
        return [[int(x) for x in w.split(":")] for w in s.split(",")]
    hist = lst(kv["hist"], 2)
    buf = lst(kv["buf"], 3)
    live = lst(kv["live"], 4)
    fset = {o for o, f in hist if f} | {b[0] for b in buf if b[1]} | {l[0] for l in live if l[1]}
    return {"side": kv["side"], "rec": int(kv["rec"]), "reject": int(kv["reject"]), "reqoff": int(kv["reqoff"]),
            "reqep": int(kv["reqep"]), "hist": [o for o, _ in hist], "top": int(kv["top"]), "ep": int(kv["ep"]),
            "buf": [[b[0], b[2]] for b in buf], "live": [[l[0], l[2], l[3]] for l in live],
            "fset": sorted(fset), "mode": kv["mode"]}


# ----------------------------------------------------------------------------- oracle
def window_class(sc):
    above = sorted({b[0] for b in sc["buf"] if b[0] > sc["top"]})
    cls = []
    if sc["rec"] and any(b[0] <= sc["reqoff"] for b in sc["buf"]):
        cls.append("stale")
    if above and above != list(range(sc["top"] + 1, sc["top"] + 1 + len(above))):
        cls.append("hole")
    return "+".join(cls) or "clean"


def oracle(op, out):
    """C01's statement evaluated on what the real transport received.
    Returns None or (message, signature)."""
    sc = parse(op)
    if out.startswith("PANIC"):
        return ("panic in the implementation: " + out, {"kind": "panic"})
    if op.startswith("rs "):
        if not out.startswith("rs "):
            return None
        kv = dict(w.split("=", 1) for w in out.split()[1:])
        pubs = [int(x) for x in kv["pubs"].split(",") if x]
        late = [int(x) for x in kv["late"].split(",") if x and x != "-"]
        seq = pubs + late
        for a, b in zip(seq, seq[1:]):
            if b <= a:
                return (f"after unsubscribe and a recovering resubscribe (per-channel batching on) offset {b} was "
                        f"delivered again after {a}: a push buffered for the ended subscription reached the connection",
                        {"kind": "order", "where": "stale-batch-after-resubscribe", "side": "c"})
        want = list(range(sc["top"] + 1, sc["top"] + 1 + len(sc["live"])))
        if pubs != want:
            return (f"resubscribe reply carries {pubs}, history after the requested offset is {want}",
                    {"kind": "gap", "where": "resub-reply", "side": "c"})
        return None
    if out.startswith("harness-error") or out == "<missing>" or out == "bad-op":
        return None  # counted separately, never a violation
    if not out.startswith("reply=ok"):
        return None  # error reply / insufficient-state disconnect at subscribe time: the server refused
    parts = [p.strip() for p in out.split("|")]
    kv = dict(w.split("=", 1) for w in parts[0].split() if "=" in w)
    anchor = int(kv["off"])
    pubs = [int(x) for x in kv.get("pubs", "").split(",") if x]
    side = sc["side"]
    fset = set(sc["fset"])
    wc = window_class(sc)
    base = {"side": side, "window_hole": "hole" in wc, "window_stale": "stale" in wc}
    if "early" in kv:
        return ("publication push written before the subscribe reply: offsets " + kv["early"],
                dict(base, kind="push-before-reply"))
    livetok = parts[1][2:].split() if len(parts) > 1 and parts[1].startswith("L=") else []
    live_deliv = []
    sub_ep = int(kv["ep"])
    for idx, tok in enumerate(livetok):
        if tok.startswith("burst:"):
            live_deliv += [int(x) for x in tok[6:].split("+") if x]
            continue
        if tok.startswith("d"):
            offs = [int(x) for x in tok[1:].split("!")[0].split("+") if x]
            live_deliv += offs
            if sc["mode"] == "each" and idx < len(sc["live"]):
                o, e, lag = sc["live"][idx]
                if lag:
                    return (f"live publication {o} delivered although PUB/SUB lag was exceeded",
                            dict(base, kind="delivered-despite-lag"))
                if sub_ep != 0 and e != sub_ep:
                    return (f"live publication {o} of epoch {e} delivered into a subscription of epoch {sub_ep}",
                            dict(base, kind="delivered-across-epoch"))
                if sub_ep == 0:
                    sub_ep = e
        elif sc["mode"] == "each" and idx < len(sc["live"]):
            o, e, lag = sc["live"][idx]
            if tok == "-" and not lag and sub_ep != 0 and e != sub_ep and "end=none" in out.split("| L=")[0] + parts[-1] \
                    and all(t in ("-",) or t.startswith("d") for t in livetok[:idx]):
                return (f"live publication {o} of a different epoch ({e}, subscription epoch {sub_ep}) was silently "
                        "skipped: an epoch change must end the subscription with insufficient state",
                        dict(base, kind="epoch-change-not-ended"))
            if sub_ep == 0 and tok in ("-",) and not lag:
                sub_ep = e if sc["mode"] == "each" else sub_ep
    seq = pubs + live_deliv
    if any(p <= anchor for p in pubs):
        return (f"subscribe reply (offset {anchor}) carries publication(s) {[p for p in pubs if p <= anchor]} "
                "the client already has (duplicate / not after the subscribe position)",
                {"side": side, "window_stale": "stale" in wc, "kind": "reply-stale"})
    for a, b in zip(seq, seq[1:]):
        if b <= a:
            where = "reply" if b in pubs and a in pubs else "live"
            return (f"delivered offsets not strictly increasing: {a} then {b}", dict(base, kind="order", where=where))
    if any(x <= anchor for x in live_deliv):
        return (f"live publication at or below the subscribe position {anchor} delivered",
                dict(base, kind="live-stale"))
    if seq:
        have = set(seq)
        for o in range(anchor + 1, seq[-1]):
            if o not in have and o not in fset:
                if side == "s" and sc["rec"] and not pubs:
                    where = "server-side-recovered-not-delivered" if (not live_deliv or o < live_deliv[0]) else "live"
                elif pubs and o < pubs[0]:
                    where = "leading"
                elif pubs and o < pubs[-1]:
                    where = "middle"
                elif pubs and live_deliv and o < live_deliv[0]:
                    where = "trailing"
                elif not pubs and live_deliv and o < live_deliv[0]:
                    where = "before-first-live"
                else:
                    where = "live"
                return (f"offset {o} between the subscribe position {anchor} and the last delivered offset "
                        f"{seq[-1]} was neither delivered nor withheld by the tags filter (gap: {where})",
                        {"side": side, "window_hole": "hole" in wc, "kind": "gap", "where": where})
    return None


def head_only(line):
    return line.split(" | ")[0]


# ----------------------------------------------------------------------------- run
def run_parallel(ctx, binary, ops, workers=4):
    n = len(ops)
    if n == 0:
        return []
    chunk = (n + workers - 1) // workers
    chunks = [ops[i:i + chunk] for i in range(0, n, chunk)]
    with ThreadPoolExecutor(max_workers=workers) as ex:
        res = list(ex.map(lambda c: _run_chunk(ctx, binary, c), enumerate(chunks)))
    out = []
    for c, r in zip(chunks, res):
        r = r + ["<missing>"] * (len(c) - len(r))
        out += r[:len(c)]
    return out


def _run_chunk(ctx, binary, ic):
    import subprocess
    from vlib.core import go_env
    i, lines = ic
    ops = os.path.join(ctx.tmp, f"c01ops{i}_{id(lines)}.txt")
    outp = ops + ".out"
    open(ops, "w").write("\n".join(lines) + "\n")
    e = go_env()
    e.update({"VERIF_OPS": ops, "VERIF_OUT": outp})
    try:
        subprocess.run([binary, "-test.run", "^TestVerifC01$", "-test.count=1", "-test.timeout=3000s"],
                       stdout=subprocess.PIPE, stderr=subprocess.STDOUT, env=e, timeout=3100, cwd=ctx.tmp)
    except subprocess.TimeoutExpired:
        pass
    return open(outp).read().splitlines() if os.path.exists(outp) else []


def shrink(ctx, binary, op, sig):
    if op.startswith("rs "):
        return op
    sc = parse(op)

    def fails(c):
        o = fmt(c)
        out = ctx.go_run(binary, "TestVerifC01", [o])
        r = oracle(o, out[0]) if out else None
        return r is not None and r[1] == sig
    budget = [24]

    def try_(c):
        if budget[0] <= 0:
            return False
        budget[0] -= 1
        return fails(c)
    changed = True
    while changed and budget[0] > 0:
        changed = False
        for key in ("live", "buf", "hist"):
            lst = sc[key]
            for i in range(len(lst) - 1, -1, -1):
                c = dict(sc)
                c[key] = lst[:i] + lst[i + 1:]
                if key == "hist" and i != 0 and i != len(lst) - 1:
                    continue
                if key == "hist":
                    c["top"] = c["hist"][-1] if c["hist"] and i == len(lst) - 1 else sc["top"]
                if try_(c):
                    sc, changed = c, True
                    break
            if changed:
                break
        if not changed and sc["fset"]:
            c = dict(sc)
            c["fset"] = sc["fset"][:-1]
            if try_(c):
                sc, changed = c, True
    return fmt(sc)


def run(ctx):
    ctx.rule = ("scenarios = (history answer of a scripted broker, requested position/epoch/flags, publications "
                "delivered by PUB/SUB inside the subscribe window incl. loss/stale/dup/reorder faults, live "
                "delivery sequence incl. dup/stale/gap/epoch-change/lag/reorder, filtered offsets, client- or "
                "server-side subscribe, settle-each or burst feeding); non-trivial = has buffered or live "
                "deliveries; distinct = distinct scenario line")
    ctx.assumptions = [
        "deliveries of one channel are processed one at a time (memory broker pubLock / one PUB/SUB reader per shard)",
        "stream positions stay below 2^64-1 (uint64 wrap of position+1 not modelled)",
        "the history answer of the broker is a run of consecutive offsets (C17's invariant)",
        "stream recovery mode only (cache mode is C03)",
    ]
    regen(ctx)
    proofs_ok = ctx.lean_obligations(modules=["CentrifugeVerif.Props.C01", "CentrifugeVerif.Props.C01Order"])
    if not proofs_ok:
        ctx.extra["regenerated_order"] = open(os.path.join("lean", "CentrifugeVerif", "Gen", "SubscribeOrder.lean")).read()[-900:]
    # --- phase 1: PubSubSync (internal/recovery) against the Sync transition system
    if not ctx.replay:
        bsync = ctx.go_test_binary("internal/recovery", HARNESS_SYNC)
        if bsync is None:
            ctx.violation("correspondence", "harness no longer builds against internal/recovery",
                          signature={"kind": "harness-build-sync"}, replay={"log": getattr(ctx, "build_error", "")},
                          no_input=True)
        else:
            sops = ["sync pub:1 start pub:2 pub:3 lock pub:4 stop pub:5", "sync start pub:1 stop pub:2",
                    "sync start lock pub:1 stop"] + [gen_sync(ctx.rng) for _ in range(ctx.scale(150, 3000))]
            simpl = ctx.go_run(bsync, "TestVerifC01Sync", sops)
            smodel = ctx.lean_run(sops) or []
            for i, op in enumerate(sops):
                a = simpl[i] if i < len(simpl) else "<missing>"
                b = smodel[i] if i < len(smodel) else "<missing>"
                ctx.record(op, nontrivial=True)
                ctx.count("sync-scenarios")
                if a.startswith("harness-error") or a == "<missing>":
                    ctx.count("sync-harness-error")
                    continue
                msg = oracle_sync(op, a)
                if msg:
                    ctx.violation("property", "PubSubSync: " + msg, signature={"kind": "pubsubsync", "msg": msg[:40]},
                                  replay={"ops": [op], "impl": [a]})
                elif a != b:
                    ctx.violation("correspondence", f"PubSubSync model and implementation differ: impl `{a}` model `{b}`",
                                  signature={"kind": "diff-sync"}, replay={"ops": [op], "impl": [a], "model": [b]},
                                  no_input=True)
    binary = ctx.go_test_binary(".", HARNESS)
    if binary is None:
        ctx.violation("correspondence", "harness no longer builds against package centrifuge",
                      signature={"kind": "harness-build"}, replay={"log": getattr(ctx, "build_error", "")},
                      no_input=True)
        return
    if ctx.replay:
        ops = json.load(open(ctx.replay)).get("ops", [])
        if ops and ops[0].startswith("sync"):
            bsync = ctx.go_test_binary("internal/recovery", HARNESS_SYNC)
            a = ctx.go_run(bsync, "TestVerifC01Sync", ops)
            for op, o in zip(ops, a):
                msg = oracle_sync(op, o)
                print("replay:", op, "->", o, "|", msg or "ok")
                if msg:
                    ctx.violation("property", "PubSubSync: " + msg, signature={"kind": "pubsubsync", "msg": msg[:40]},
                                  replay={"ops": [op], "impl": [o]})
            return
    else:
        corpus = [l.strip() for l in open("props/C01/corpus.ops") if l.strip() and not l.startswith("#")]
        known = []
        try:
            for f in json.load(open("props/C01/findings.json"))["findings"]:
                known += f.get("replay", {}).get("ops", [])
        except FileNotFoundError:
            pass
        ops = known + corpus + [fmt(gen(ctx.rng)) for _ in range(ctx.scale(600, 40000))]
        ops += [f"rs top={ctx.rng.choice([0, 1, 3, 10])} n={ctx.rng.choice([1, 1, 2, 3])}" for _ in range(ctx.scale(24, 400))]
    impl = run_parallel(ctx, binary, ops, workers=8)
    model = ctx.lean_run(ops)
    if model is None:
        proofs_ok = False
        model = []
    nviol = {}
    herr = 0
    for i, op in enumerate(ops):
        out = impl[i] if i < len(impl) else "<missing>"
        sc = parse(op)
        ctx.record(op, nontrivial=bool(sc["buf"] or sc["live"]))
        ctx.count("side:" + sc["side"]); ctx.count("mode:" + sc["mode"]); ctx.count("window:" + window_class(sc))
        ctx.count("impl:" + out.split()[0].split(":")[0])
        if out.startswith("harness-error") or out == "<missing>":
            herr += 1
            continue
        for tok in (out.split("| L=")[1].split(" | ")[0].split() if "| L=" in out else []):
            ctx.count("live:" + (tok[:2] if tok.startswith("i") else tok[:1]))
        r = oracle(op, out)
        if r:
            msg, sig = r
            key = json.dumps(sig, sort_keys=True)
            nviol[key] = nviol.get(key, 0) + 1
            if nviol[key] == 1:
                small = shrink(ctx, binary, op, sig)
                sout = ctx.go_run(binary, "TestVerifC01", [small])
                r2 = oracle(small, sout[0]) if sout else None
                if r2 is None:
                    small, sout, r2 = op, [out], r
                ctx.violation("property", r2[0], signature=r2[1],
                              replay={"ops": [small], "impl": sout, "original_op": op})
    ctx.extra["harness_errors_dropped"] = herr
    ctx.traces_validated = len(ops) - herr
    ndiff = 0
    for i, op in enumerate(ops):
        a = impl[i] if i < len(impl) else "<missing>"
        b = model[i] if i < len(model) else "<missing>"
        if a.startswith("harness-error") or a == "<missing>":
            continue
        if " mode=burst" in op:
            a, b = head_only(a), head_only(b)
        if a != b:
            ndiff += 1
            if ndiff <= 3:
                ctx.violation("correspondence", f"model and implementation differ: impl `{a}` model `{b}`",
                              signature={"kind": "diff", "impl": a.split()[0], "model": b.split()[0]},
                              replay={"ops": [op], "impl": [a], "model": [b],
                                      "correspondence": "Drivers/C01.lean vs Client.subscribeCmd / writePublicationUpdatePosition"},
                              no_input=not ctx.violations)
    ctx.extra["disagreements"] = ndiff
    if herr > len(ops) // 10:
        ctx.notes.append(f"{herr} scenarios dropped as harness errors")
    if not proofs_ok:
        ctx.proof_broken()
