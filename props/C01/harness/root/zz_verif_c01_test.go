//go:build verif

package centrifuge

// Verification harness for C01 (injected with `go test -overlay`; never part of the repo).
//
// One scenario per op line, one canonical output line per scenario:
//   sc side=c|s rec=0|1 reject=0|1 reqoff=N reqep=E hist=o:f,… top=T ep=E buf=o:f:e,… live=o:f:e:l,… mode=each|burst
// A scripted Broker answers the history read of the subscribe with (hist, top, ep) and, while the
// subscriber is inside that read (hub entry present, PUB/SUB buffering on), delivers the `buf`
// publications through the node's broker event handler — i.e. arbitrary in-window PUB/SUB traffic.
// After the subscribe reply the `live` deliveries are fed one at a time.
//   f = 1: publication carries tags the client's tags filter rejects;  e = epoch index (0 = "");
//   l = 1: publication time far in the past (PUB/SUB lag beyond ClientChannelPositionMaxTimeLag).
// Output: `reply=ok rec=R off=N ep=E pubs=o,o | L=<per live delivery: dN | - | il | ie | io> | end=…`

import (
	"bufio"
	"context"
	"encoding/json"
	"fmt"
	"os"
	"strconv"
	"strings"
	"sync"
	"testing"
	"time"

	"github.com/centrifugal/protocol"
)

type verifC01Pub struct {
	off      uint64
	filtered bool
	epoch    int
	lag      bool
}

type verifC01Broker struct {
	node    *Node
	hist    []verifC01Pub
	top     uint64
	epoch   int
	buf     []verifC01Pub
	handler BrokerEventHandler
	injected bool
}

func verifC01Epoch(i int) string {
	if i == 0 {
		return ""
	}
	return "ep" + strconv.Itoa(i)
}

func verifC01MkPub(p verifC01Pub) *Publication {
	tags := map[string]string{"k": "v"}
	if p.filtered {
		tags = map[string]string{"k": "x"}
	}
	pub := &Publication{Offset: p.off, Data: []byte(`{"o":` + strconv.FormatUint(p.off, 10) + `}`), Tags: tags}
	if p.lag {
		pub.Time = time.Now().UnixMilli() - 3600_000
	}
	return pub
}

func (b *verifC01Broker) RegisterBrokerEventHandler(h BrokerEventHandler) error {
	b.handler = h
	return nil
}
func (b *verifC01Broker) Subscribe(_ ...string) error   { return nil }
func (b *verifC01Broker) Unsubscribe(_ ...string) error { return nil }
func (b *verifC01Broker) Publish(_ string, _ []byte, _ PublishOptions) (PublishResult, error) {
	return PublishResult{}, nil
}
func (b *verifC01Broker) PublishJoin(_ string, _ *ClientInfo) error  { return nil }
func (b *verifC01Broker) PublishLeave(_ string, _ *ClientInfo) error { return nil }
func (b *verifC01Broker) RemoveHistory(_ string) error               { return nil }
func (b *verifC01Broker) History(ch string, opts HistoryOptions) ([]*Publication, StreamPosition, error) {
	// in-window PUB/SUB deliveries (the subscriber is between hub add and buffer lock here)
	if !b.injected {
		b.injected = true
		for _, p := range b.buf {
			_ = b.handler.HandlePublication(ch, verifC01MkPub(p), StreamPosition{Offset: p.off, Epoch: verifC01Epoch(p.epoch)}, false, nil)
		}
	}
	sp := StreamPosition{Offset: b.top, Epoch: verifC01Epoch(b.epoch)}
	if opts.Filter.Limit == 0 {
		return nil, sp, nil
	}
	var pubs []*Publication
	for _, p := range b.hist {
		if opts.Filter.Since != nil && p.off <= opts.Filter.Since.Offset {
			continue
		}
		pubs = append(pubs, verifC01MkPub(p))
	}
	return pubs, sp, nil
}

type verifC01Transport struct {
	mu     sync.Mutex
	frames []string
	closed bool
	disc   *Disconnect
	notify chan struct{}
}

func (t *verifC01Transport) Name() string                     { return "verif" }
func (t *verifC01Transport) AcceptProtocol() string            { return "" }
func (t *verifC01Transport) Protocol() ProtocolType            { return ProtocolTypeJSON }
func (t *verifC01Transport) ProtocolVersion() ProtocolVersion  { return ProtocolVersion2 }
func (t *verifC01Transport) Unidirectional() bool              { return false }
func (t *verifC01Transport) Emulation() bool                   { return false }
func (t *verifC01Transport) DisabledPushFlags() uint64         { return 0 }
func (t *verifC01Transport) PingPongConfig() PingPongConfig {
	return PingPongConfig{PingInterval: time.Hour, PongTimeout: time.Minute}
}
func (t *verifC01Transport) add(b []byte) {
	for _, l := range strings.Split(string(b), "\n") {
		if strings.TrimSpace(l) != "" {
			t.frames = append(t.frames, l)
		}
	}
}
func (t *verifC01Transport) Write(b []byte) error {
	t.mu.Lock()
	t.add(b)
	t.mu.Unlock()
	select {
	case t.notify <- struct{}{}:
	default:
	}
	return nil
}
func (t *verifC01Transport) WriteMany(bs ...[]byte) error {
	t.mu.Lock()
	for _, b := range bs {
		t.add(b)
	}
	t.mu.Unlock()
	select {
	case t.notify <- struct{}{}:
	default:
	}
	return nil
}
func (t *verifC01Transport) Close(d Disconnect) error {
	t.mu.Lock()
	t.closed = true
	dd := d
	t.disc = &dd
	t.mu.Unlock()
	select {
	case t.notify <- struct{}{}:
	default:
	}
	return nil
}

// waitFor polls the recorded frames until cond holds (or 10 s pass: harness error).
func (t *verifC01Transport) waitFor(cond func(frames []string, closed bool) bool) bool {
	deadline := time.Now().Add(10 * time.Second)
	for {
		t.mu.Lock()
		ok := cond(t.frames, t.closed)
		t.mu.Unlock()
		if ok {
			return true
		}
		if time.Now().After(deadline) {
			return false
		}
		select {
		case <-t.notify:
		case <-time.After(20 * time.Millisecond):
		}
	}
}

type verifC01Logs struct {
	mu      sync.Mutex
	insuff  []string
}

func verifC01ParsePubs(s string, n int) ([]verifC01Pub, bool) {
	if s == "" || s == "-" {
		return nil, true
	}
	var out []verifC01Pub
	for _, w := range strings.Split(s, ",") {
		parts := strings.Split(w, ":")
		if len(parts) != n {
			return nil, false
		}
		off, err := strconv.ParseUint(parts[0], 10, 64)
		if err != nil {
			return nil, false
		}
		p := verifC01Pub{off: off, filtered: parts[1] == "1"}
		if n >= 3 {
			p.epoch, _ = strconv.Atoi(parts[2])
		}
		if n >= 4 {
			p.lag = parts[3] == "1"
		}
		out = append(out, p)
	}
	return out, true
}

func verifC01KV(line string) map[string]string {
	m := map[string]string{}
	for _, w := range strings.Fields(line) {
		if i := strings.IndexByte(w, '='); i > 0 {
			m[w[:i]] = w[i+1:]
		}
	}
	return m
}

type verifC01Frame struct {
	ID        uint32 `json:"id"`
	Error     *struct{ Code uint32 `json:"code"` } `json:"error"`
	Subscribe *struct {
		Recovered    bool   `json:"recovered"`
		WasRecovering bool  `json:"was_recovering"`
		Offset       uint64 `json:"offset"`
		Epoch        string `json:"epoch"`
		Publications []struct {
			Offset uint64 `json:"offset"`
		} `json:"publications"`
	} `json:"subscribe"`
	Push *struct {
		Channel string `json:"channel"`
		Pub     *struct {
			Offset uint64 `json:"offset"`
		} `json:"pub"`
		Unsubscribe *struct{ Code uint32 `json:"code"` } `json:"unsubscribe"`
		Subscribe   *struct {
			Recovered    bool   `json:"recovered"`
			Offset       uint64 `json:"offset"`
			Epoch        string `json:"epoch"`
			Publications []struct {
				Offset uint64 `json:"offset"`
			} `json:"publications"`
		} `json:"subscribe"`
		Message *struct{ Data json.RawMessage `json:"data"` } `json:"message"`
	} `json:"push"`
}

func verifC01EpIdx(s string) string {
	if s == "" {
		return "0"
	}
	return strings.TrimPrefix(s, "ep")
}

func verifC01Scenario(line string) (res string) {
	defer func() {
		if r := recover(); r != nil {
			res = fmt.Sprintf("PANIC %v", r)
		}
	}()
	kv := verifC01KV(line)
	if strings.HasPrefix(line, "rs ") {
		return verifC01Resub(kv)
	}
	hist, ok1 := verifC01ParsePubs(kv["hist"], 2)
	buf, ok2 := verifC01ParsePubs(kv["buf"], 3)
	live, ok3 := verifC01ParsePubs(kv["live"], 4)
	if !ok1 || !ok2 || !ok3 {
		return "bad-op"
	}
	top, _ := strconv.ParseUint(kv["top"], 10, 64)
	ep, _ := strconv.Atoi(kv["ep"])
	reqoff, _ := strconv.ParseUint(kv["reqoff"], 10, 64)
	reqep, _ := strconv.Atoi(kv["reqep"])
	serverSide := kv["side"] == "s"
	recoverFlag := kv["rec"] == "1"
	reject := kv["reject"] == "1"
	burst := kv["mode"] == "burst"

	logs := &verifC01Logs{}
	node, err := New(Config{
		LogLevel: LogLevelDebug,
		LogHandler: func(e LogEntry) {
			if strings.HasPrefix(e.Message, "client insufficient state") {
				logs.mu.Lock()
				logs.insuff = append(logs.insuff, e.Message)
				logs.mu.Unlock()
			}
		},
		ClientChannelPositionMaxTimeLag: 10 * time.Second,
		ClientChannelPositionCheckDelay: time.Hour,
		GetChannelBatchConfig: func(channel string) ChannelBatchConfig {
			if kv["batch"] == "1" {
				return ChannelBatchConfig{MaxDelay: 40 * time.Millisecond, MaxSize: 1 << 20}
			}
			return ChannelBatchConfig{}
		},
	})
	if err != nil {
		return "harness-error new-node"
	}
	broker := &verifC01Broker{node: node, hist: hist, top: top, epoch: ep, buf: buf}
	node.SetBroker(broker)
	clientFilter := &protocol.FilterNode{Op: "", Key: "k", Cmp: "eq", Val: "v"}
	node.OnConnecting(func(ctx context.Context, e ConnectEvent) (ConnectReply, error) {
		return ConnectReply{Credentials: &Credentials{UserID: "u"}}, nil
	})
	node.OnConnect(func(c *Client) {
		c.OnSubscribe(func(e SubscribeEvent, cb SubscribeCallback) {
			cb(SubscribeReply{Options: SubscribeOptions{EnableRecovery: true, EnablePositioning: true, AllowTagsFilter: true}}, nil)
		})
	})
	if err := node.Run(); err != nil {
		return "harness-error run"
	}
	defer func() { _ = node.Shutdown(context.Background()) }()

	tr := &verifC01Transport{notify: make(chan struct{}, 1)}
	ctx, cancel := context.WithCancel(context.Background())
	defer cancel()
	client, closeFn, err := NewClient(ctx, node, tr)
	if err != nil {
		return "harness-error new-client"
	}
	defer func() { _ = closeFn() }()
	if !client.HandleCommand(&protocol.Command{Id: 1, Connect: &protocol.ConnectRequest{}}, 0) {
		return "harness-error connect"
	}
	if !tr.waitFor(func(fr []string, closed bool) bool { return len(fr) >= 1 || closed }) {
		return "harness-error connect-reply-timeout"
	}
	var replyPart string
	const ch = "ch"
	if !serverSide {
		req := &protocol.SubscribeRequest{Channel: ch, Recover: recoverFlag, Offset: reqoff, Epoch: verifC01Epoch(reqep), Tf: clientFilter}
		if reject {
			req.Flag |= subscriptionFlagRejectUnrecovered
		}
		client.HandleCommand(&protocol.Command{Id: 2, Subscribe: req}, 0)
	} else {
		opts := []SubscribeOption{WithPositioning(true), WithRecovery(true), func(o *SubscribeOptions) { o.ServerTagsFilter = &FilterNode{Op: "", Key: "k", Cmp: "eq", Val: "v"} }}
		if recoverFlag {
			opts = append(opts, WithRecoverSince(&StreamPosition{Offset: reqoff, Epoch: verifC01Epoch(reqep)}))
		}
		go func() { _ = client.Subscribe(ch, opts...) }()
	}
	// wait for subscribe reply / push, an error reply, or a disconnect
	var sub *verifC01Frame
	gotReply := tr.waitFor(func(fr []string, closed bool) bool {
		if closed {
			return true
		}
		for _, f := range fr[1:] {
			var x verifC01Frame
			if json.Unmarshal([]byte(f), &x) != nil {
				continue
			}
			if (x.ID == 2 && (x.Subscribe != nil || x.Error != nil)) || (x.Push != nil && x.Push.Subscribe != nil) {
				y := x
				sub = &y
				return true
			}
		}
		return false
	})
	if !gotReply {
		return "harness-error subscribe-reply-timeout"
	}
	// frames between connect reply and the subscribe reply: anything that is a publication push
	// here arrived BEFORE the reply (order violation, reported to the oracle)
	early := []string{}
	tr.mu.Lock()
	frames := append([]string(nil), tr.frames...)
	closed := tr.closed
	disc := tr.disc
	tr.mu.Unlock()
	subIdx := -1
	for i, f := range frames {
		if i == 0 {
			continue
		}
		var x verifC01Frame
		if json.Unmarshal([]byte(f), &x) != nil {
			continue
		}
		if (x.ID == 2 && (x.Subscribe != nil || x.Error != nil)) || (x.Push != nil && x.Push.Subscribe != nil) {
			subIdx = i
			break
		}
		if x.Push != nil && x.Push.Pub != nil {
			early = append(early, strconv.FormatUint(x.Push.Pub.Offset, 10))
		}
	}
	if sub == nil {
		if closed && disc != nil {
			return fmt.Sprintf("reply=disc:%d", disc.Code)
		}
		return "harness-error no-reply"
	}
	if sub.Error != nil {
		return fmt.Sprintf("reply=err:%d", sub.Error.Code)
	}
	var rec bool
	var off uint64
	var epoch string
	var pubOffs []string
	if sub.Subscribe != nil {
		rec, off, epoch = sub.Subscribe.Recovered, sub.Subscribe.Offset, sub.Subscribe.Epoch
		for _, p := range sub.Subscribe.Publications {
			pubOffs = append(pubOffs, strconv.FormatUint(p.Offset, 10))
		}
	} else {
		rec, off, epoch = sub.Push.Subscribe.Recovered, sub.Push.Subscribe.Offset, sub.Push.Subscribe.Epoch
		for _, p := range sub.Push.Subscribe.Publications {
			pubOffs = append(pubOffs, strconv.FormatUint(p.Offset, 10))
		}
	}
	replyPart = fmt.Sprintf("reply=ok rec=%d off=%d ep=%s pubs=%s", verifC01B(rec), off, verifC01EpIdx(epoch), strings.Join(pubOffs, ","))
	if len(early) > 0 {
		replyPart += " early=" + strings.Join(early, ",")
	}
	// committed position as the client object reports it
	client.mu.RLock()
	cc, okc := client.channels[ch]
	client.mu.RUnlock()
	if okc {
		replyPart += fmt.Sprintf(" pos=%d:%s", cc.streamPosition.Offset, verifC01EpIdx(cc.streamPosition.Epoch))
	}

	// live phase
	cursor := subIdx + 1
	var acts []string
	end := "none"
	ended := false
	fence := 0
	collect := func() (pushed []string, unsub string) {
		tr.mu.Lock()
		defer tr.mu.Unlock()
		for ; cursor < len(tr.frames); cursor++ {
			var x verifC01Frame
			if json.Unmarshal([]byte(tr.frames[cursor]), &x) != nil || x.Push == nil {
				continue
			}
			if x.Push.Pub != nil {
				pushed = append(pushed, strconv.FormatUint(x.Push.Pub.Offset, 10))
			}
			if x.Push.Unsubscribe != nil {
				unsub = fmt.Sprintf("unsub:%d", x.Push.Unsubscribe.Code)
			}
		}
		return
	}
	doFence := func() bool {
		fence++
		marker := fmt.Sprintf(`{"fence":%d}`, fence)
		if err := client.Send([]byte(marker)); err != nil {
			return false
		}
		return tr.waitFor(func(fr []string, closed bool) bool {
			if closed {
				return true
			}
			for i := len(fr) - 1; i >= 0 && i >= len(fr)-50; i-- {
				if strings.Contains(fr[i], marker) {
					return true
				}
			}
			return false
		})
	}
	for _, p := range live {
		logs.mu.Lock()
		nBefore := len(logs.insuff)
		logs.mu.Unlock()
		_ = broker.handler.HandlePublication(ch, verifC01MkPub(p), StreamPosition{Offset: p.off, Epoch: verifC01Epoch(p.epoch)}, false, nil)
		if burst {
			continue
		}
		logs.mu.Lock()
		newInsuff := append([]string(nil), logs.insuff[nBefore:]...)
		logs.mu.Unlock()
		act := "-"
		if len(newInsuff) > 0 {
			m := newInsuff[0]
			switch {
			case strings.Contains(m, "(lag)"):
				act = "il"
			case strings.Contains(m, "(epoch)"):
				act = "ie"
			default:
				act = "io"
			}
			// the unsubscribe / disconnect runs on a spawned goroutine: wait for its effect
			okw := tr.waitFor(func(fr []string, closed bool) bool {
				if closed {
					return true
				}
				for i := cursor; i < len(fr); i++ {
					if strings.Contains(fr[i], `"unsubscribe"`) {
						return true
					}
				}
				return false
			})
			if !okw {
				return "harness-error insufficient-effect-timeout"
			}
			// the unsubscribe / close must have fully settled (hub entry gone) before the next delivery
			deadline := time.Now().Add(10 * time.Second)
			for node.hub.NumSubscribers(ch) > 0 {
				if time.Now().After(deadline) {
					return "harness-error insufficient-settle-timeout"
				}
				time.Sleep(2 * time.Millisecond)
			}
		}
		if !doFence() {
			// closed
		}
		pushed, unsub := collect()
		if len(pushed) > 0 {
			act = "d" + strings.Join(pushed, "+")
			if len(newInsuff) > 0 {
				act += "!i"
			}
		}
		acts = append(acts, act)
		if unsub != "" && !ended {
			end, ended = unsub, true
		}
		tr.mu.Lock()
		if tr.closed && !ended && tr.disc != nil {
			end, ended = fmt.Sprintf("disc:%d", tr.disc.Code), true
		}
		tr.mu.Unlock()
	}
	if burst {
		// wait for the effects of any insufficient-state decision, then fence and collect
		logs.mu.Lock()
		n := len(logs.insuff)
		logs.mu.Unlock()
		if n > 0 {
			tr.waitFor(func(fr []string, closed bool) bool {
				if closed {
					return true
				}
				for i := cursor; i < len(fr); i++ {
					if strings.Contains(fr[i], `"unsubscribe"`) {
						return true
					}
				}
				return false
			})
		}
		doFence()
		pushed, unsub := collect()
		acts = append(acts, "burst:"+strings.Join(pushed, "+"))
		if unsub != "" {
			end = unsub
		}
		tr.mu.Lock()
		if tr.closed && tr.disc != nil && end == "none" {
			end = fmt.Sprintf("disc:%d", tr.disc.Code)
		}
		tr.mu.Unlock()
	}
	return replyPart + " | L=" + strings.Join(acts, " ") + " | end=" + end
}

func verifC01B(b bool) int {
	if b {
		return 1
	}
	return 0
}

func TestVerifC01(t *testing.T) {
	in, err := os.Open(os.Getenv("VERIF_OPS"))
	if err != nil {
		t.Skip("no VERIF_OPS")
	}
	defer in.Close()
	out, err := os.Create(os.Getenv("VERIF_OUT"))
	if err != nil {
		t.Fatal(err)
	}
	defer out.Close()
	w := bufio.NewWriter(out)
	defer w.Flush()
	sc := bufio.NewScanner(in)
	sc.Buffer(make([]byte, 1<<20), 1<<26)
	for sc.Scan() {
		line := sc.Text()
		if line == "" || strings.HasPrefix(line, "#") {
			fmt.Fprintln(w, "#")
			continue
		}
		fmt.Fprintln(w, verifC01Scenario(line))
		w.Flush()
	}
}


// verifC01Resub: `rs top=T n=K` — per-channel batching on (MaxDelay 40 ms).  A positioned client
// subscribes at the stream top T, K live publications T+1..T+K are delivered (they sit in the
// channel batch), the client unsubscribes before the batch is flushed and resubscribes recovering
// from T.  Output: `rs pubs=<offsets in the second subscribe reply> late=<publication pushes that
// reached the connection after the second subscribe reply, within 150 ms>`.
func verifC01Resub(kv map[string]string) (res string) {
	defer func() {
		if r := recover(); r != nil {
			res = fmt.Sprintf("PANIC %v", r)
		}
	}()
	top, _ := strconv.ParseUint(kv["top"], 10, 64)
	n, _ := strconv.Atoi(kv["n"])
	node, err := New(Config{
		LogLevel:                        LogLevelNone,
		ClientChannelPositionMaxTimeLag: 10 * time.Second,
		ClientChannelPositionCheckDelay: time.Hour,
		GetChannelBatchConfig: func(channel string) ChannelBatchConfig {
			return ChannelBatchConfig{MaxDelay: 40 * time.Millisecond, MaxSize: 1 << 20}
		},
	})
	if err != nil {
		return "harness-error new-node"
	}
	broker := &verifC01Broker{node: node, top: top, epoch: 1, injected: true}
	node.SetBroker(broker)
	node.OnConnecting(func(ctx context.Context, e ConnectEvent) (ConnectReply, error) {
		return ConnectReply{Credentials: &Credentials{UserID: "u"}}, nil
	})
	node.OnConnect(func(c *Client) {
		c.OnSubscribe(func(e SubscribeEvent, cb SubscribeCallback) {
			cb(SubscribeReply{Options: SubscribeOptions{EnableRecovery: true, EnablePositioning: true}}, nil)
		})
		c.OnUnsubscribe(func(e UnsubscribeEvent) {})
	})
	if err := node.Run(); err != nil {
		return "harness-error run"
	}
	defer func() { _ = node.Shutdown(context.Background()) }()
	tr := &verifC01Transport{notify: make(chan struct{}, 1)}
	ctx, cancel := context.WithCancel(context.Background())
	defer cancel()
	client, closeFn, err := NewClient(ctx, node, tr)
	if err != nil {
		return "harness-error new-client"
	}
	defer func() { _ = closeFn() }()
	const ch = "ch"
	waitReply := func(id uint32) *verifC01Frame {
		var got *verifC01Frame
		tr.waitFor(func(fr []string, closed bool) bool {
			if closed {
				return true
			}
			for _, f := range fr {
				var x verifC01Frame
				if json.Unmarshal([]byte(f), &x) == nil && x.ID == id {
					y := x
					got = &y
					return true
				}
			}
			return false
		})
		return got
	}
	client.HandleCommand(&protocol.Command{Id: 1, Connect: &protocol.ConnectRequest{}}, 0)
	if waitReply(1) == nil {
		return "harness-error connect"
	}
	client.HandleCommand(&protocol.Command{Id: 2, Subscribe: &protocol.SubscribeRequest{Channel: ch, Recover: true, Offset: top, Epoch: verifC01Epoch(1)}}, 0)
	if r := waitReply(2); r == nil || r.Subscribe == nil {
		return "harness-error subscribe1"
	}
	for i := 1; i <= n; i++ {
		p := verifC01Pub{off: top + uint64(i), epoch: 1}
		broker.hist = append(broker.hist, p)
		broker.top = p.off
		_ = broker.handler.HandlePublication(ch, verifC01MkPub(p), StreamPosition{Offset: p.off, Epoch: verifC01Epoch(1)}, false, nil)
	}
	client.HandleCommand(&protocol.Command{Id: 3, Unsubscribe: &protocol.UnsubscribeRequest{Channel: ch}}, 0)
	if waitReply(3) == nil {
		return "harness-error unsubscribe"
	}
	client.HandleCommand(&protocol.Command{Id: 4, Subscribe: &protocol.SubscribeRequest{Channel: ch, Recover: true, Offset: top, Epoch: verifC01Epoch(1)}}, 0)
	r4 := waitReply(4)
	if r4 == nil || r4.Subscribe == nil {
		return "harness-error subscribe2"
	}
	var pubs []string
	for _, p := range r4.Subscribe.Publications {
		pubs = append(pubs, strconv.FormatUint(p.Offset, 10))
	}
	time.Sleep(150 * time.Millisecond) // the channel batch (MaxDelay 40 ms) would have flushed by now
	_ = client.Send([]byte(`{"fence":1}`))
	tr.waitFor(func(fr []string, closed bool) bool {
		for i := len(fr) - 1; i >= 0; i-- {
			if strings.Contains(fr[i], `"fence":1`) {
				return true
			}
		}
		return closed
	})
	var late []string
	tr.mu.Lock()
	after := false
	for _, f := range tr.frames {
		var x verifC01Frame
		if json.Unmarshal([]byte(f), &x) != nil {
			continue
		}
		if x.ID == 4 {
			after = true
			continue
		}
		if after && x.Push != nil && x.Push.Pub != nil {
			late = append(late, strconv.FormatUint(x.Push.Pub.Offset, 10))
		}
	}
	tr.mu.Unlock()
	l := strings.Join(late, ",")
	if l == "" {
		l = "-"
	}
	return "rs pubs=" + strings.Join(pubs, ",") + " late=" + l
}
