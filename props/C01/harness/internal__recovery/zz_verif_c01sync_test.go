//go:build verif

package recovery

// Verification harness for C01, PubSubSync part (injected with `go test -overlay`).
// Line: `sync <tok> <tok> …` with tokens `start`, `pub:<offset>`, `lock`, `stop`.
// Output: one token per input token:
//   pub  → `b` (appended to the buffer), `l` (syncedFn called), `p` (parked on pubBufferMu)
//   lock → `lock[o1,o2,…]` (publications handed to the subscriber)
//   stop → `stop[…]` with the outcome (`b`/`l`) of every parked publication, in park order
//   start→ `start`
// At most one publication is parked at a time by the generator (deliveries of one channel are
// sequential).  Whether a SyncPublication call is expected to block is read from the entry's
// `pubBufferLocked` field (in-package access), so the harness never guesses from timing alone.

import (
	"bufio"
	"fmt"
	"os"
	"strconv"
	"strings"
	"testing"
	"time"

	"github.com/centrifugal/protocol"
)

type verifC01Parked struct {
	done chan string
}

func verifC01SyncScenario(line string) (res string) {
	defer func() {
		if r := recover(); r != nil {
			res = fmt.Sprintf("PANIC %v", r)
		}
	}()
	toks := strings.Fields(line)[1:]
	ps := NewPubSubSync()
	const ch = "ch"
	var out []string
	var parked []*verifC01Parked
	for _, tok := range toks {
		switch {
		case tok == "start":
			ps.StartBuffering(ch)
			out = append(out, "start")
		case tok == "lock":
			pubs := ps.LockBufferAndReadBuffered(ch)
			offs := make([]string, 0, len(pubs))
			for _, p := range pubs {
				offs = append(offs, strconv.FormatUint(p.Offset, 10))
			}
			out = append(out, "lock["+strings.Join(offs, ",")+"]")
		case tok == "stop":
			ps.StopBuffering(ch)
			var rs []string
			for _, p := range parked {
				select {
				case r := <-p.done:
					rs = append(rs, r)
				case <-time.After(10 * time.Second):
					return "harness-error parked-not-released"
				}
			}
			parked = nil
			out = append(out, "stop["+strings.Join(rs, ",")+"]")
		case strings.HasPrefix(tok, "pub:"):
			off, err := strconv.ParseUint(tok[4:], 10, 64)
			if err != nil {
				return "bad-op"
			}
			// will this call block?  (entry present and the subscriber holds pubBufferMu)
			ps.subSyncMu.Lock()
			st, ok := ps.subSync[ch]
			expectBlock := ok && st.pubBufferLocked
			var before int
			if ok && !st.pubBufferLocked {
				st.pubBufferMu.Lock()
				before = len(st.pubBuffer)
				st.pubBufferMu.Unlock()
			}
			ps.subSyncMu.Unlock()
			p := &verifC01Parked{done: make(chan string, 1)}
			go func() {
				called := false
				ps.SyncPublication(ch, &protocol.Publication{Offset: off}, func() { called = true })
				if called {
					p.done <- "l"
				} else {
					p.done <- "b"
				}
			}()
			if expectBlock {
				select {
				case r := <-p.done:
					out = append(out, r+"!notblocked")
				case <-time.After(15 * time.Millisecond):
					parked = append(parked, p)
					out = append(out, "p")
				}
			} else {
				select {
				case r := <-p.done:
					if r == "b" && ok {
						st.pubBufferMu.Lock()
						after := len(st.pubBuffer)
						st.pubBufferMu.Unlock()
						if after != before+1 {
							r = "b!lost"
						}
					}
					out = append(out, r)
				case <-time.After(10 * time.Second):
					return "harness-error sync-publication-stuck"
				}
			}
		default:
			return "bad-op"
		}
	}
	if len(parked) > 0 {
		ps.StopBuffering(ch)
		for _, p := range parked {
			select {
			case <-p.done:
			case <-time.After(10 * time.Second):
			}
		}
	}
	return strings.Join(out, " ")
}

func TestVerifC01Sync(t *testing.T) {
	in, err := os.Open(os.Getenv("VERIF_OPS"))
	if err != nil {
		t.Skip("no VERIF_OPS")
	}
	defer in.Close()
	out, err := os.Create(os.Getenv("VERIF_OUT"))
	if err != nil {
		t.Fatal(err)
	}
	defer out.Close()
	w := bufio.NewWriter(out)
	defer w.Flush()
	sc := bufio.NewScanner(in)
	sc.Buffer(make([]byte, 1<<20), 1<<26)
	for sc.Scan() {
		line := sc.Text()
		if line == "" || strings.HasPrefix(line, "#") {
			fmt.Fprintln(w, "#")
			continue
		}
		fmt.Fprintln(w, verifC01SyncScenario(line))
	}
}
