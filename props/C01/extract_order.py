"""Translator (T1): extracts, from the CURRENT client.go, the textual order of the synchronisation-relevant
calls inside `subscribeCmd` and `Client.Subscribe`, and emits Gen/SubscribeOrder.lean.  The program
order of the `Sync` transition system (sStart ≺ sHubAdd ≺ sHist ≺ sLock ≺ sReply ≺ sCommit ≺ sStop)
is proved (Props/C01.lean, `subscribe_order_matches_model`) to be the order found here."""
import os
import re

PATS_CMD = [
    ("StartBuffering", r"c\.pubSubSync\.StartBuffering\("),
    ("addSubscription", r"c\.node\.addSubscription\("),
    ("addPresence", r"c\.node\.addPresence\("),
    ("recoverCache", r"c\.node\.recoverCache\("),
    ("recoverHistory", r"c\.node\.recoverHistory\("),
    ("streamTop", r"c\.node\.streamTop\("),
    ("LockBuffer", r"c\.pubSubSync\.LockBufferAndReadBuffered\("),
    ("Merge", r"recovery\.MergePublications\("),
    ("writeReply", r"c\.writeEncodedCommandReply\("),
    ("commit", r"c\.commitSubscription\("),
    ("StopBuffering", r"c\.pubSubSync\.StopBuffering\("),
]
PATS_SUB = [
    ("subscribeCmd", r"c\.subscribeCmd\("),
    ("deferStopBuffering", r"defer c\.pubSubSync\.StopBuffering\("),
    ("commit", r"c\.commitSubscription\("),
    ("subscribePush", r"c\.getSubscribePushReply\("),
    ("writePush", r"c\.writeEncodedPushData\("),
    ("joinAndPresence", r"c\.publishJoinAndPresence\("),
]


def func_body(src, header):
    i = src.index(header)
    j = src.find("\nfunc ", i + 1)
    return src[i:j if j > 0 else len(src)]


def strip_comments(body):
    return "\n".join(l.split("//")[0] for l in body.splitlines())


def order(body, pats):
    hits = []
    for name, rx in pats:
        for m in re.finditer(rx, body):
            hits.append((m.start(), name))
    return [n for _, n in sorted(hits)]


def generate(repo):
    src = open(os.path.join(repo, "client.go")).read()
    cmd = order(strip_comments(func_body(src, "func (c *Client) subscribeCmd(")), PATS_CMD)
    sub = order(strip_comments(func_body(src, "func (c *Client) Subscribe(channel string")), PATS_SUB)
    q = lambda xs: "[" + ", ".join('"%s"' % x for x in xs) + "]"
    return ("/- REGENERATED on every run by props/C01/extract_order.py from /repo/client.go. Do not edit. -/\n"
            "namespace CentrifugeVerif.Gen.SubscribeOrder\n\n"
            "/-- textual order of the synchronisation-relevant calls in `subscribeCmd` -/\n"
            f"def subscribeCmd : List String := {q(cmd)}\n\n"
            "/-- textual order of the relevant calls in the server-side `Client.Subscribe` -/\n"
            f"def clientSubscribe : List String := {q(sub)}\n\n"
            "end CentrifugeVerif.Gen.SubscribeOrder\n")


if __name__ == "__main__":
    print(generate(os.environ.get("VERIF_REPO", "/repo")))
