//go:build verif

package centrifuge

// Verification harness for C23 (adapted from the C20 harness; same op lines).  (injected with `go test -overlay`, never part of the repo).
// Drives the real MemoryMapBroker inside a testing/synctest bubble (virtual clock) on the op lines
// of $VERIF_OPS and writes one canonical line per op to $VERIF_OUT.  Protocol: see
// /verif/lean/Drivers/C20.lean.  A `reset` line starts a new scenario (= a new bubble, node, broker).
//
// Determinism: the broker's sweepers tick at whole virtual seconds after RegisterEventHandler; the
// harness goroutine runs at +0.5 ms, sleeps whole milliseconds and calls synctest.Wait() after each
// sleep, so a sweep at second k always completes before the op issued at millisecond 1000k.

import (
	"bufio"
	"context"
	"encoding/hex"
	"errors"
	"fmt"
	"os"
	"strconv"
	"strings"
	"testing"
	"testing/synctest"
	"time"
)

type verifC23Handler struct {
	rec []string
	fmt func(ch string, pub *Publication, sp StreamPosition, useDelta bool, prev *Publication) string
}

func (h *verifC23Handler) HandlePublication(ch string, pub *Publication, sp StreamPosition, useDelta bool, prevPub *Publication) error {
	h.rec = append(h.rec, h.fmt(ch, pub, sp, useDelta, prevPub))
	return nil
}
func (h *verifC23Handler) HandleJoin(string, *ClientInfo) error  { return nil }
func (h *verifC23Handler) HandleLeave(string, *ClientInfo) error { return nil }

func (h *verifC23Handler) drain() string {
	if len(h.rec) == 0 {
		return "-"
	}
	s := strings.Join(h.rec, ",")
	h.rec = h.rec[:0]
	return s
}

type verifC23Scenario struct {
	// epochs are canonicalised PER CHANNEL (first-seen index among the epochs of that channel): the property
	// compares the brokers "up to epoch strings", and the Redis broker may give two channels the same string
	epochsBy map[string]map[string]int
	seenBy   map[string][]string
	cur      string // channel of the op being executed / of the broadcast being formatted
	t0      int64
	broker  MapBroker
	handler *verifC23Handler
	// Redis variant: the real RedisMapBroker over the fake endpoint
	redis *RedisMapBroker
	fake  *verifFakeRedis
}

// deliver hands what the Redis side PUBLISHed since the last call to the real PUB/SUB handler.
func (s *verifC23Scenario) deliver() {
	if s.redis == nil {
		return
	}
	for _, m := range s.fake.drainOutbox() {
		if err := s.redis.handleRedisClientMessage(false, s.handler, m.channel, []byte(m.payload)); err != nil {
			s.handler.rec = append(s.handler.rec, "undeliverable")
		}
	}
}

func (s *verifC23Scenario) ep(e string) string {
	if e == "" {
		return "-"
	}
	m := s.epochsBy[s.cur]
	if m == nil {
		m = map[string]int{}
		s.epochsBy[s.cur] = m
	}
	i, ok := m[e]
	if !ok {
		i = len(s.seenBy[s.cur])
		m[e] = i
		s.seenBy[s.cur] = append(s.seenBy[s.cur], e)
	}
	return "E" + strconv.Itoa(i)
}

func (s *verifC23Scenario) pos(p StreamPosition) string {
	return strconv.FormatUint(p.Offset, 10) + ":" + s.ep(p.Epoch)
}

func verifC23Hex(b string) string {
	if len(b) == 0 {
		return "-"
	}
	return hex.EncodeToString([]byte(b))
}

func verifC23Unhex(x string) (string, bool) {
	if x == "-" {
		return "", true
	}
	b, err := hex.DecodeString(x)
	if err != nil {
		return "", false
	}
	return string(b), true
}

func verifC23Tag(m map[string]string) string {
	if m == nil {
		return "0"
	}
	if len(m) == 0 {
		return "1"
	}
	return m["t"]
}

func verifC23MkTag(n uint64) map[string]string {
	switch n {
	case 0:
		return nil
	case 1:
		return map[string]string{}
	}
	return map[string]string{"t": strconv.FormatUint(n, 10)}
}

func verifC23Data(d []byte) string {
	if len(d) == 0 {
		return "0"
	}
	return string(d)
}

func (s *verifC23Scenario) pub(p *Publication) string {
	r := "0"
	if p.Removed {
		r = "1"
	}
	return fmt.Sprintf("%s/%d/%s/%s/%s/%d/%d", verifC23Hex(p.Key), p.Offset, r, verifC23Data(p.Data), verifC23Tag(p.Tags), p.Score, p.Time-s.t0)
}

func (s *verifC23Scenario) pubs(ps []*Publication) string {
	if len(ps) == 0 {
		return "-"
	}
	out := make([]string, len(ps))
	for i, p := range ps {
		out[i] = s.pub(p)
	}
	return strings.Join(out, ",")
}

func (s *verifC23Scenario) parseEpoch(x string) (string, bool) {
	if x == "-" {
		return "", true
	}
	if strings.HasPrefix(x, "E") {
		k, err := strconv.Atoi(x[1:])
		if err != nil || k < 0 {
			return "", false
		}
		if k < len(s.seenBy[s.cur]) {
			return s.seenBy[s.cur][k], true
		}
		return "bogus-" + strconv.Itoa(k), true
	}
	return "", false
}

func (s *verifC23Scenario) parsePos(x string) (*StreamPosition, bool) {
	if x == "-" {
		return nil, true
	}
	parts := strings.Split(x, ":")
	if len(parts) != 2 {
		return nil, false
	}
	o, err := strconv.ParseUint(parts[0], 10, 64)
	if err != nil {
		return nil, false
	}
	e, ok := s.parseEpoch(parts[1])
	if !ok {
		return nil, false
	}
	return &StreamPosition{Offset: o, Epoch: e}, true
}

func verifC23Err(err error) string {
	if errors.Is(err, ErrorUnrecoverablePosition) {
		return "unrecoverable"
	}
	m := err.Error()
	switch {
	case strings.Contains(m, "CAS (ExpectedPosition)"):
		return "cas-ephemeral"
	case strings.Contains(m, "version-based dedup"):
		return "version-ephemeral"
	}
	for _, p := range []string{"map channel", "invalid Mode", "KeyTTL", "StreamSize", "StreamTTL", "MetaTTL"} {
		if strings.HasPrefix(m, p) {
			return "config"
		}
	}
	return "other"
}

func verifC23KV(ws []string) map[string]string {
	m := map[string]string{}
	for _, w := range ws {
		if i := strings.IndexByte(w, '='); i >= 0 {
			m[w[:i]] = w[i+1:]
		}
	}
	return m
}

func verifC23ParseCfg(ws []string) (map[string]MapChannelOptions, bool) {
	out := map[string]MapChannelOptions{}
	for _, w := range ws {
		i := strings.IndexByte(w, '=')
		if i < 0 || !strings.HasPrefix(w, "c") {
			return nil, false
		}
		parts := strings.Split(w[i+1:], ":")
		if len(parts) != 4 {
			return nil, false
		}
		var o MapChannelOptions
		switch parts[0] {
		case "E":
			o.Mode = MapModeEphemeral
		case "R":
			o.Mode = MapModeRecoverable
		case "P":
			o.Mode = MapModePersistent
		case "U":
			o.Mode = 0
		case "B":
			o.Mode = 7
		default:
			return nil, false
		}
		ttl, err1 := strconv.ParseInt(parts[1], 10, 64)
		size, err2 := strconv.Atoi(parts[2])
		if err1 != nil || err2 != nil || (parts[3] != "0" && parts[3] != "1") {
			return nil, false
		}
		o.KeyTTL = time.Duration(ttl) * time.Millisecond
		o.StreamSize = size
		o.ordered = parts[3] == "1"
		if o.Mode.HasStream() {
			o.StreamTTL = time.Hour // beyond the virtual horizon of a scenario
		}
		out[w[:i]] = o
	}
	return out, true
}

// step executes one op line (after the clock was advanced) and returns the result part.
func (s *verifC23Scenario) step(cmd string, kv map[string]string) (res string) {
	defer func() {
		if r := recover(); r != nil {
			res = "PANIC"
		}
	}()
	ctx := context.Background()
	ch := "c" + kv["ch"]
	s.cur = ch
	u := func(k string) (uint64, bool) {
		v, err := strconv.ParseUint(kv[k], 10, 64)
		return v, err == nil
	}
	b := func(k string) (bool, bool) {
		switch kv[k] {
		case "0":
			return false, true
		case "1":
			return true, true
		}
		return false, false
	}
	if _, err := strconv.Atoi(kv["ch"]); err != nil {
		return "bad-op"
	}
	update := func(r MapUpdateResult, err error) string {
		if err != nil {
			return "err=" + verifC23Err(err)
		}
		sup := "-"
		if r.Suppressed || r.SuppressReason != "" {
			sup = string(r.SuppressReason)
			if !r.Suppressed || sup == "" {
				sup = "inconsistent-suppressed-flag"
			}
		}
		cur := "-"
		if r.CurrentEntry != nil {
			cur = fmt.Sprintf("%d.%s", r.CurrentEntry.Offset, verifC23Data(r.CurrentEntry.Data))
		}
		return fmt.Sprintf("ok pos=%s sup=%s cur=%s", s.pos(r.Position), sup, cur)
	}
	switch cmd {
	case "pub":
		key, ok0 := verifC23Unhex(kv["key"])
		data, ok1 := u("data")
		tag, ok2 := u("tag")
		score, err3 := strconv.ParseInt(kv["score"], 10, 64)
		rtos, ok4 := b("rtos")
		ver, ok5 := u("ver")
		vep, ok6 := u("vep")
		idem, ok7 := u("idem")
		ittl, ok8 := u("ittl")
		cas, ok9 := s.parsePos(kv["cas"])
		delta, ok10 := b("delta")
		var mode KeyMode
		switch kv["mode"] {
		case "r":
			mode = KeyModeReplace
		case "n":
			mode = KeyModeIfNew
		case "x":
			mode = KeyModeIfExists
		case "o":
			mode = KeyMode("bogus")
		default:
			return "bad-op"
		}
		if !(ok0 && ok1 && ok2 && err3 == nil && ok4 && ok5 && ok6 && ok7 && ok8 && ok9 && ok10) {
			return "bad-op"
		}
		o := MapPublishOptions{Tags: verifC23MkTag(tag), score: score, KeyMode: mode, RefreshTTLOnSuppress: rtos,
			Version: ver, ExpectedPosition: cas, UseDelta: delta,
			IdempotentResultTTL: time.Duration(ittl) * time.Millisecond}
		if data != 0 {
			o.Data = []byte(strconv.FormatUint(data, 10))
		}
		if vep != 0 {
			o.VersionEpoch = "v" + strconv.FormatUint(vep, 10)
		}
		if idem != 0 {
			o.IdempotencyKey = "i" + strconv.FormatUint(idem, 10)
		}
		return update(s.broker.Publish(ctx, ch, key, o))
	case "rm":
		key, ok0 := verifC23Unhex(kv["key"])
		idem, ok1 := u("idem")
		ittl, ok2 := u("ittl")
		cas, ok3 := s.parsePos(kv["cas"])
		tag, ok4 := u("tag")
		if !(ok0 && ok1 && ok2 && ok3 && ok4) {
			return "bad-op"
		}
		o := MapRemoveOptions{ExpectedPosition: cas, Tags: verifC23MkTag(tag),
			IdempotentResultTTL: time.Duration(ittl) * time.Millisecond}
		if idem != 0 {
			o.IdempotencyKey = "i" + strconv.FormatUint(idem, 10)
		}
		return update(s.broker.Remove(ctx, ch, key, o))
	case "clear":
		if err := s.broker.Clear(ctx, ch, MapClearOptions{}); err != nil {
			return "err=" + verifC23Err(err)
		}
		return "ok"
	case "state":
		key, ok0 := verifC23Unhex(kv["key"])
		cur, ok1 := verifC23Unhex(kv["cur"])
		rev, ok2 := s.parsePos(kv["rev"])
		lim, err3 := strconv.Atoi(kv["lim"])
		asc, ok4 := b("asc")
		if !(ok0 && ok1 && ok2 && err3 == nil && ok4) {
			return "bad-op"
		}
		r, err := s.broker.ReadState(ctx, ch, MapReadStateOptions{Revision: rev, Cursor: cur, Limit: lim, Key: key, Asc: asc})
		if err != nil {
			e := verifC23Err(err)
			if e == "unrecoverable" {
				return "err=unrecoverable pos=" + s.pos(r.Position)
			}
			return "err=" + e
		}
		return fmt.Sprintf("ok pos=%s cursor=%s pubs=%s", s.pos(r.Position), verifC23Hex(r.Cursor), s.pubs(r.Publications))
	case "pages":
		// the client's pagination loop: from the empty cursor while the returned cursor is non-empty
		lim, err0 := strconv.Atoi(kv["lim"])
		asc, ok1 := b("asc")
		if !(err0 == nil && ok1) {
			return "bad-op"
		}
		var keys, sizes []string
		var lastPos StreamPosition
		cursor := ""
		done := 0
		n := 0
		for n < 64 {
			r, err := s.broker.ReadState(ctx, ch, MapReadStateOptions{Cursor: cursor, Limit: lim, Asc: asc})
			if err != nil {
				return "err=" + verifC23Err(err)
			}
			n++
			lastPos = r.Position
			for _, p := range r.Publications {
				keys = append(keys, verifC23Hex(p.Key))
			}
			sizes = append(sizes, strconv.Itoa(len(r.Publications)))
			if r.Cursor == "" {
				done = 1
				break
			}
			cursor = r.Cursor
		}
		ks := "-"
		if len(keys) > 0 {
			ks = strings.Join(keys, ",")
		}
		return fmt.Sprintf("ok pos=%s n=%d done=%d sizes=%s keys=%s", s.pos(lastPos), n, done, strings.Join(sizes, ","), ks)
	case "stream":
		since, ok0 := s.parsePos(kv["since"])
		lim, err1 := strconv.Atoi(kv["lim"])
		rev, ok2 := b("rev")
		if !(ok0 && err1 == nil && ok2) {
			return "bad-op"
		}
		r, err := s.broker.ReadStream(ctx, ch, MapReadStreamOptions{Filter: StreamFilter{Since: since, Limit: lim, Reverse: rev}})
		if err != nil {
			return "err=" + verifC23Err(err)
		}
		return fmt.Sprintf("ok pos=%s pubs=%s", s.pos(r.Position), s.pubs(r.Publications))
	}
	return "bad-op"
}

func verifC23RunScenario(t *testing.T, lines []string, emit func(string)) {
	verifC23RunScenarioWith(t, lines, emit, nil)
}

func verifC23RunScenarioWith(t *testing.T, lines []string, emit func(string), fake *verifFakeRedis) {
	ws := strings.Fields(lines[0])
	cfgs, ok := verifC23ParseCfg(ws[1:])
	if !ok {
		for range lines {
			emit("bad-op")
		}
		return
	}
	outs := make([]string, 0, len(lines))
	synctest.Test(t, func(t *testing.T) {
		node, err := New(Config{})
		if err != nil {
			t.Fatal(err)
		}
		node.config.Map.GetMapChannelOptions = func(ch string) MapChannelOptions {
			return cfgs[ch] // zero value (Mode 0) for unknown channels
		}
		s := &verifC23Scenario{epochsBy: map[string]map[string]int{}, seenBy: map[string][]string{}}
		var closeFn func()
		if fake == nil {
			broker, err := NewMemoryMapBroker(node, MemoryMapBrokerConfig{})
			if err != nil {
				t.Fatal(err)
			}
			s.broker = broker
			closeFn = func() { _ = broker.Close(context.Background()) }
		} else {
			fake.reset()
			shard, err := verifFakeShard(fake)
			if err != nil {
				t.Fatal(err)
			}
			rb, err := NewRedisMapBroker(node, RedisMapBrokerConfig{Shards: []*RedisShard{shard}})
			if err != nil {
				t.Fatal(err)
			}
			s.broker, s.redis, s.fake = rb, rb, fake
			closeFn = func() {
				_ = rb.Close(context.Background())
				shard.Close()
			}
		}
		s.handler = &verifC23Handler{fmt: func(ch string, pub *Publication, sp StreamPosition, useDelta bool, prev *Publication) string {
			d := "0"
			if useDelta {
				d = "1"
			}
			p := "-"
			if prev != nil {
				p = fmt.Sprintf("%d.%s", prev.Offset, verifC23Data(prev.Data))
			}
			saved := s.cur
			s.cur = ch
			defer func() { s.cur = saved }()
			return fmt.Sprintf("%s/%s/%s/%s/%s", strings.TrimPrefix(ch, "c"), s.pub(pub), s.pos(sp), d, p)
		}}
		if fake == nil {
			_ = s.broker.(*MemoryMapBroker).RegisterEventHandler(s.handler)
		}
		s.t0 = time.Now().UnixMilli()
		time.Sleep(500 * time.Microsecond)
		synctest.Wait()
		outs = append(outs, "ok")
		dead := false
		for _, line := range lines[1:] {
			if dead {
				outs = append(outs, "SKIP")
				continue
			}
			f := strings.Fields(line)
			kv := verifC23KV(f[1:])
			dt, err := strconv.ParseUint(kv["dt"], 10, 32)
			if err != nil {
				outs = append(outs, "bad-op")
				continue
			}
			if dt > 0 {
				time.Sleep(time.Duration(dt) * time.Millisecond)
			}
			synctest.Wait()
			s.deliver()
			sw := s.handler.drain()
			if f[0] == "adv" {
				outs = append(outs, "sw="+sw+" ok bc=-")
				continue
			}
			res := s.step(f[0], kv)
			synctest.Wait()
			s.deliver()
			if res == "bad-op" {
				outs = append(outs, res)
				continue
			}
			if res == "PANIC" {
				dead = true
			}
			outs = append(outs, "sw="+sw+" "+res+" bc="+s.handler.drain())
		}
		closeFn()
		_ = node.Shutdown(context.Background())
		synctest.Wait()
	})
	for _, o := range outs {
		emit(o)
	}
	for i := len(outs); i < len(lines); i++ {
		emit("<missing>")
	}
}

func TestVerifC23Mem(t *testing.T) {
	verifC23Main(t, nil)
}

// TestVerifC23Redis runs the same op lines through the REAL RedisMapBroker (Go glue of
// map_broker_redis.go) over the fake endpoint backed by the Lean Redis model + translated scripts.
func TestVerifC23Redis(t *testing.T) {
	if os.Getenv("VERIF_OPS") == "" {
		t.Skip("no VERIF_OPS")
	}
	lean, err := verifLeanStart()
	if err != nil {
		t.Fatal(err)
	}
	defer lean.stop()
	verifC23Main(t, verifFakeRedisNew(lean))
}

func verifC23Main(t *testing.T, fake *verifFakeRedis) {
	in, err := os.Open(os.Getenv("VERIF_OPS"))
	if err != nil {
		t.Skip("no VERIF_OPS")
	}
	defer in.Close()
	out, err := os.Create(os.Getenv("VERIF_OUT"))
	if err != nil {
		t.Fatal(err)
	}
	defer out.Close()
	w := bufio.NewWriter(out)
	defer w.Flush()
	sc := bufio.NewScanner(in)
	sc.Buffer(make([]byte, 1<<20), 1<<26)
	var cur []string
	// pending holds the positions of comment lines inside the current scenario
	type item struct {
		comment bool
	}
	var layout []item
	flush := func() {
		if len(cur) == 0 {
			for range layout {
				fmt.Fprintln(w, "#")
			}
			layout = layout[:0]
			return
		}
		var res []string
		if strings.HasPrefix(cur[0], "reset") {
			verifC23RunScenarioWith(t, cur, func(s string) { res = append(res, s) }, fake)
		} else {
			for range cur {
				res = append(res, "bad-op")
			}
		}
		i := 0
		for _, it := range layout {
			if it.comment {
				fmt.Fprintln(w, "#")
			} else {
				fmt.Fprintln(w, res[i])
				i++
			}
		}
		cur = cur[:0]
		layout = layout[:0]
		w.Flush()
	}
	for sc.Scan() {
		line := sc.Text()
		if line == "" || strings.HasPrefix(line, "#") {
			layout = append(layout, item{comment: true})
			continue
		}
		if strings.HasPrefix(line, "reset") {
			flush()
		}
		cur = append(cur, line)
		layout = append(layout, item{})
	}
	flush()
}
