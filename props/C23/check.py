"""C23 — Redis and Memory map brokers agree.

Redis side  = the REAL RedisMapBroker (Go glue of map_broker_redis.go: Publish/Remove argument marshalling,
              parseAddScriptResult, ReadStream, readOrderedState/readUnorderedState/readSingleKey, cursor
              handling, Clear, handleRedisClientMessage) talking RESP2 to the in-process fake endpoint
              (props/C18/harness/zz_verif_redisfake_test.go) that forwards every command to the Lean driver
              drv_c23: the trusted Redis/Lua model running the Lua scripts of /repo/internal/redis_lua,
              re-translated to Lean on every run (props/C18/lua2lean.py → Gen/Lua/*.lean).
Memory side = the REAL MemoryMapBroker.  Both run inside synctest bubbles on the same op lines (the op
              protocol is the one of the C20 harness).

The property *is* that the outputs agree: suppression outcome, stream position (offset, epoch as first-seen
index), CAS current entry, state contents (ordered: in order, with the cursor; unordered: as a set), stream
contents, and — beyond the property text — the publication handed to subscribers.  Disagreements are
reported with the shrunk scenario; genuine differences of the unchanged code are in findings.json and are
re-derived from their stored replays on every run.
"""
import json
import os
import sys

HERE = os.path.dirname(os.path.abspath(__file__))
sys.path.insert(0, os.path.join(os.path.dirname(HERE), "C18"))
import c18lib  # noqa: E402
from vlib.core import ddmin, REPO  # noqa: E402

HARNESS = ["props/C23/harness/zz_verif_c23_test.go", "props/C18/harness/zz_verif_redisfake_test.go"]
KEYS = [b"k1", b"k2", b"k3", b"a", b"zz", b"k:4"]
LONG = 3600000


def regen(ctx):
    ok, report = c18lib.regen_lua(ctx, REPO)
    ctx.extra["lua2lean"] = report
    return ok


def hx(b):
    return b.hex() if b else "-"


# ------------------------------------------------------------------------------------ generator
class Track:
    """what the generator remembers about a channel: keys it put, an estimate of the top offset, and the
    first-seen index of its current epoch"""

    def __init__(self):
        self.keys = {}
        self.top = 0
        self.epoch = None
        self.nextep = 0
        self.lb = 0  # lower bound of the top offset (unconditionally stored publications)


def gen_scenario(rng, profile):
    wide = profile == "wide"
    modes = []
    for i in range(3):
        m = rng.choice(["P", "P", "R", "E"]) if wide else rng.choice(["P", "P", "R"])
        ttl = 0 if m == "P" else LONG
        size = 0 if m == "E" else rng.choice([1, 2, 3, 5, 100])
        modes.append((m, ttl, size, rng.randint(0, 1)))
    lines = ["reset " + " ".join("c%d=%s:%d:%d:%d" % ((i,) + modes[i]) for i in range(3))]
    tr = {i: Track() for i in range(4)}
    nep = [0]

    def touch(ch):
        t = tr[ch]
        if t.epoch is None:
            t.epoch = t.nextep  # per-channel first-seen index of the channel's current epoch
        return t

    def pos(ch, base):
        t = tr[ch]
        off = base if rng.random() < 0.6 else max(0, base + rng.choice([-1, 1, 2]))
        e = t.epoch if t.epoch is not None else 0
        ep = "E%d" % e
        if wide and rng.random() < 0.2:
            ep = rng.choice(["-", "E%d" % (e + 1), "E9"])
        return "%d:%s" % (off, ep)

    # every configured channel starts with a plain publish: its epoch exists and has been seen (E0), so
    # positions in later ops can name it
    for ch in range(3):
        lines.append("pub ch=%d key=%s dt=%d data=%d tag=0 score=%d mode=r rtos=0 ver=0 vep=0 idem=0 ittl=0 cas=- delta=0"
                     % (ch, hx(b"k1"), rng.randint(1, 9), 900 + ch, ch))
        t = touch(ch)
        t.top = t.lb = 1
        t.keys[b"k1"] = {"off": 1, "ver": 0, "vep": 0, "score": ch}
    n = rng.randint(10, 40)
    for i in range(n):
        r = rng.random()
        ch = rng.choice([0, 0, 1, 1, 2])
        t = tr[ch]
        key = rng.choice(KEYS)
        dt = rng.randint(1, 30) if rng.random() < 0.85 else rng.choice([200, 450, 1200])
        ordered = ch < 3 and modes[ch][3] == 1
        if r < 0.5:
            old = t.keys.get(key)
            # versions: fresh ones, and — with the stored (version, version epoch) of the key in view — stale / equal /
            # newer versions in the same epoch, epoch switches, and unversioned publishes in between (which must
            # preserve both the stored version and its epoch)
            ver, vep = 0, 0
            if old and old["ver"] > 0 and rng.random() < 0.65:
                q = rng.random()
                if q < 0.3:
                    ver, vep = 0, 0                                              # unversioned publish of a versioned key
                elif q < 0.8:
                    ver = max(1, old["ver"] + rng.choice([-2, -1, 0, 0, 1]))      # stale / equal / next, same epoch
                    vep = old["vep"]
                elif q < 0.9:
                    ver = max(1, old["ver"] + rng.choice([-1, 0, 1]))             # epoch switch
                    vep = rng.choice([x for x in (0, 1, 2, 3) if x != old["vep"]])
                else:
                    ver, vep = max(1, old["ver"] - 1), 0                          # empty epoch matches any stored epoch
            elif rng.random() < 0.45:
                ver = rng.randint(1, 6)
                vep = rng.choice([0, 1, 1, 2])
            cas = "-" if rng.random() < 0.7 else pos(ch, old["off"] if old else t.top)
            score = rng.choice([-5, 0, 0, 3, 3, 3, 7, rng.randint(-3, 3), 10 ** 12])
            mode = rng.choice("rrrrrnnnxx")
            tag = rng.choice([0, 0, 5, 6])
            idem = 0 if rng.random() < 0.7 else rng.randint(1, 3)
            lines.append("pub ch=%d key=%s dt=%d data=%d tag=%d score=%d mode=%s rtos=%d ver=%d vep=%d idem=%d ittl=%d "
                         "cas=%s delta=%d" % (ch, hx(key), dt, i + 1, tag, score, mode, rng.randint(0, 1), ver, vep,
                                              idem, rng.choice([0, 0, 2000, 60000]), cas, 1 if rng.random() < 0.3 else 0))
            t.top += 1
            if mode == "r" and cas == "-" and ver == 0 and idem == 0:
                t.lb += 1
            t.keys[key] = {"off": t.top, "ver": ver or (old["ver"] if old else 0),
                           "vep": vep if ver else (old["vep"] if old else 0), "score": score}
        elif r < 0.65 and not ordered:
            # (removals on ordered channels: finding C23-2 — the Redis broker never removes the key from the order
            # zset — would end the comparison of every such scenario; they are covered by the stored replay)
            if t.keys and rng.random() < 0.6:
                key = rng.choice(sorted(t.keys))
            cas = "-" if rng.random() < 0.7 else pos(ch, t.keys[key]["off"] if key in t.keys else t.top)
            lines.append("rm ch=%d key=%s dt=%d idem=%d ittl=%d cas=%s tag=9" % (
                ch, hx(key), dt, 0 if rng.random() < 0.7 else rng.randint(1, 3), rng.choice([0, 0, 2000]), cas))
            t.top += 1
            t.keys.pop(key, None)
        elif r < 0.80 or (r < 0.65 and ordered):
            cur = "-"
            lim = rng.choice([-1, -1, 0, 1, 1, 2, 3]) if ordered else rng.choice([-1, -1, -1, 0])
            if ordered and t.keys and rng.random() < 0.4:
                k = rng.choice(sorted(t.keys))
                cur = hx(str(t.keys[k]["score"]).encode() + b"\x00" + k)
            rev = "-" if (rng.random() < 0.75 or lim == 0) else pos(ch, t.top)
            lines.append("state ch=%d dt=%d lim=%d cur=%s key=%s asc=%d rev=%s" % (
                ch, rng.randint(0, 5), lim, cur, hx(key) if rng.random() < 0.2 else "-", rng.randint(0, 1), rev))
        elif r < 0.87:
            lines.append("pages ch=%d dt=%d lim=%d asc=%d" % (ch, rng.randint(0, 5), rng.choice([1, 2, 3]), rng.randint(0, 1)))
        elif r < 0.98:
            rv = rng.randint(0, 1)
            since = "-"
            if rng.random() < 0.6:
                if rv == 0:
                    since = pos(ch, rng.randint(0, t.top + 1))
                elif t.lb >= 1:
                    # reverse with since: only offsets whose predecessor certainly exists
                    since = "%d:E0" % rng.randint(2, t.lb + 1)
            lines.append("stream ch=%d dt=%d since=%s lim=%d rev=%d" % (ch, rng.randint(0, 5), since,
                                                                      rng.choice([-1, -1, 0, 1, 2, 5]), rv))
        else:
            lines.append("adv dt=%d" % rng.choice([300, 1000, 2600]))
    return lines


# ------------------------------------------------------------------------------- canonical form
def fields(line):
    d = {}
    for w in line.split():
        if "=" in w:
            k, v = w.split("=", 1)
            d[k] = v
        else:
            d.setdefault("status", w)
    return d


def proj(op, out, ordered):
    """projection to what the property speaks about: the broadcast keeps channel/publication/position (the
    delta flag and the previous publication are transport details: the Redis broker computes deltas from the
    stored state value on the receiving node); unordered state pages are compared as sets and without cursor."""
    f = fields(out)
    if "bc" in f and f["bc"] != "-":
        items = []
        for it in f["bc"].split(","):
            p = it.split("/")
            items.append("/".join(p[:9]) if len(p) >= 9 else it)
        f["bc"] = ",".join(items)
    k = op.split()[0]
    if "err" in f:
        f.pop("pos", None)  # the position that accompanies an error is not part of the result
    if k in ("state", "pages") and not ordered:
        if "pubs" in f and f["pubs"] != "-":
            f["pubs"] = ",".join(sorted(f["pubs"].split(",")))
        if "keys" in f and f["keys"] != "-":
            f["keys"] = ",".join(sorted(f["keys"].split(",")))
        for drop in ("cursor", "n", "sizes"):
            f.pop(drop, None)
    return " ".join("%s=%s" % (a, b) for a, b in sorted(f.items()))


def chan_ordered(reset_line):
    m = {}
    for w in reset_line.split()[1:]:
        k, v = w.split("=", 1)
        parts = v.split(":")
        m[k[1:]] = len(parts) == 4 and parts[3] == "1"
    return m


def project_scenario(sc, outs):
    om = chan_ordered(sc[0])
    res = []
    for op, o in zip(sc, outs):
        ch = fields(op).get("ch", "")
        res.append(proj(op, o, om.get(ch, False)))
    return res


def classify(sc, j, mem, red):
    """Signature of the first disagreement (projected lines).  A known class is named only when the op and
    the scenario prefix satisfy that class's precondition."""
    op = sc[j]
    k = op.split()[0]
    fo = fields(op)
    fm, fr = fields(mem[j]), fields(red[j])
    diff = [x for x in sorted(set(fm) | set(fr)) if fm.get(x) != fr.get(x)]
    sig = {"kind": "unclassified", "op": k, "fields": ",".join(diff)}
    ch = fo.get("ch")
    om = chan_ordered(sc[0])
    modes = {w.split("=")[0][1:]: w.split("=")[1].split(":")[0] for w in sc[0].split()[1:]}
    prefix = [(sc[i], fields(sc[i]), fields(mem[i])) for i in range(1, j) if fields(sc[i]).get("ch") == ch]
    ep = lambda p: (p or "").split(":")[-1]  # noqa: E731
    if k == "rm" and fo.get("tag") == "0" and diff == ["bc"] and fm.get("sup") == "-":
        return {"kind": "redis-removal-publication-lacks-entry-tags"}
    if k == "stream" and diff == ["pubs"] and fm["pubs"] != "-" and fr["pubs"] != "-":
        pm, pr = fm["pubs"].split(","), fr["pubs"].split(",")
        if len(pm) == len(pr) and all(a == b or (len(a.split("/")) == 7 and a.split("/")[2] == "1"
                                                   and a.split("/")[:4] == b.split("/")[:4]
                                                   and a.split("/")[5:] == b.split("/")[5:])
                                      for a, b in zip(pm, pr)):
            return {"kind": "redis-removal-publication-lacks-entry-tags"}
    if (k in ("state", "pages") and om.get(ch) and set(diff) <= {"cursor", "pubs", "n", "sizes"}
            and any(l.startswith("rm ") and o.get("sup") == "-" for (l, _, o) in prefix)):
        return {"kind": "redis-remove-leaves-key-in-order-zset"}
    if (k == "pub" and fo.get("idem", "0") != "0" and fm.get("sup") == "-" and fr.get("sup") == "idempotency"
            and any(l.startswith("clear ") for (l, _, _) in prefix)
            and any(l.startswith("pub ") and f.get("idem") == fo["idem"] for (l, f, _) in prefix)):
        return {"kind": "redis-idempotency-result-survives-clear"}
    if (k in ("stream", "state", "pages") and diff == ["pos"] and any(l.startswith("clear ") for (l, _, _) in prefix)
            and fm["pos"].split(":")[0] == fr["pos"].split(":")[0] and ep(fm["pos"]) != ep(fr["pos"])):
        return {"kind": "redis-read-created-epoch-is-node-id"}
    if (k in ("rm", "pub") and diff == ["pos"] and fm.get("pos") == "0:-" and fr.get("pos", "").startswith("0:E")
            and fm.get("sup") not in (None, "-") and not prefix):
        return {"kind": "suppressed-update-on-fresh-channel-position"}
    if (k == "state" and fo.get("lim") == "0" and fo.get("rev") != "-" and fm.get("err") == "unrecoverable"
            and fr.get("status") == "ok"):
        return {"kind": "redis-state-limit0-ignores-revision"}
    if (k == "stream" and fo.get("rev") == "1" and fo.get("since", "-").startswith("1:") and diff == ["pubs"]
            and fm["pubs"] == "-"):
        return {"kind": "redis-reverse-since-one-returns-stream"}
    if k == "stream" and ch not in modes and fr.get("err") == "config" and fm.get("status") == "ok":
        return {"kind": "memory-readstream-skips-channel-config-check"}
    if (k == "pub" and modes.get(ch) == "E" and fo.get("mode") in ("x", "n") and fm.get("sup") in ("key_not_found", "key_exists")
            and fr.get("sup") == "-"):
        return {"kind": "redis-ephemeral-keymode-not-enforced"}
    if (k in ("pub", "rm") and fo.get("cas", "-").endswith(":-") and fm.get("sup") == "position_mismatch"
            and fr.get("sup") == "-"):
        return {"kind": "redis-cas-with-empty-epoch-skipped"}
    if (k == "pub" and {fm.get("sup"), fr.get("sup")} == {"-", "version"}
            and (int(fo.get("ver", "0")) > 2 ** 53 or any(int(f.get("ver", "0")) > 2 ** 53 for (l, f, _) in prefix if l.startswith("pub ")))):
        return {"kind": "map-version-beyond-2^53-on-redis"}
    if (k == "pages" and om.get(ch) and fr.get("done") == "0" and fm.get("done") == "1"
            and any(l.startswith("pub ") and abs(int(f.get("score", "0"))) >= 10 ** 14 for (l, f, _) in prefix)):
        return {"kind": "redis-ordered-cursor-loses-score-precision"}
    return sig


# ------------------------------------------------------------------------------------------ run
def split_scenarios(ops):
    return c18lib.split_scenarios(ops)


def run_both(ctx, binary, ops):
    if not hasattr(ctx, "_srv"):
        ctx._srv = ctx.lean_driver_build("drv_c23")
    mem = ctx.go_run(binary, "TestVerifC23Mem", ops)
    if ctx._srv is None:
        return mem, None
    red = ctx.go_run(binary, "TestVerifC23Redis", ops, env={"VERIF_REDIS_DRV": ctx._srv})
    return mem, red


def first_diff(a, b):
    for i in range(max(len(a), len(b))):
        x = a[i] if i < len(a) else "<missing>"
        y = b[i] if i < len(b) else "<missing>"
        if x != y:
            return i
    return None


def run(ctx):
    ctx.rule = ("scenarios of 10-40 map operations (publish with key modes / versions / CAS / idempotency keys / "
                "scores, remove, ordered and unordered state reads with limits, cursors and revisions, full pagination "
                "loops, single-key reads, stream reads forward/reverse/since/limit, clear) over 3 channels with random "
                "modes (persistent / recoverable / ephemeral, ordered or not, stream size); non-trivial = at least 2 "
                "suppress reasons and one state read with publications; distinct = distinct scenario text")
    ctx.assumptions = [
        "generated scenarios stay in the region where agreement is expected: persistent / recoverable channels (on "
        "ephemeral channels the Redis broker reports a freshly generated epoch per call), every channel starts with a "
        "plain publish, positions name the channel's current epoch, no Clear, removals only on unordered channels, "
        "reverse stream reads with since only where the predecessor offset exists, versions < 2^53, |score| <= 10^12; "
        "the 12 known differences outside that region are replayed from findings.json on every run",
        "Redis command semantics and Lua 5.1 semantics are a hand-written trusted model (no Redis/Lua in the sandbox)",
        "single non-cluster shard, plain PUB/SUB; MAXLEN ~ modelled as exact trimming; HSCAN returns the whole hash",
        "key TTL expiry is outside the comparison: KeyTTL is 1 h (beyond the scenario horizon) because the Redis cleanup "
        "worker's scripts (map_broker_find_expired / map_broker_batch_remove) are not translated",
        "unordered state pages are compared as sets (the property allows different page boundaries); the delta flag and "
        "previous publication of a broadcast are not compared",
    ]
    ctx.trusted_base = ["Lean 4.33.0 kernel", "axioms: propext, Classical.choice, Quot.sound",
                        "Model/LuaVal.lean, Model/Redis.lean (Lua + Redis semantics)", "props/C18/lua2lean.py translator",
                        "fake RESP2 endpoint + harness + canonicalisation"]
    gen_ok = regen(ctx)
    proofs_ok = ctx.lean_obligations() and gen_ok
    binary = ctx.go_test_binary(".", HARNESS)
    if binary is None:
        ctx.violation("correspondence", "harness no longer builds against package centrifuge",
                      signature={"kind": "harness-build"}, replay={"log": getattr(ctx, "build_error", "")},
                      no_input=True)
        return
    if ctx.replay:
        scenarios = split_scenarios(json.load(open(ctx.replay)).get("ops", []))
    else:
        corpus = [l.rstrip("\n") for l in open(os.path.join(HERE, "corpus.ops")) if l.strip() and not l.startswith("#")]
        scenarios = split_scenarios(corpus)
        for f in json.load(open(os.path.join(HERE, "findings.json")))["findings"]:
            scenarios += split_scenarios(f["replay"]["ops"])
        for i in range(ctx.scale(250, 5000)):
            scenarios.append(gen_scenario(ctx.rng, "core"))
    ops = [l for sc in scenarios for l in sc]
    mem, red = run_both(ctx, binary, ops)
    if red is None:
        proofs_ok = False
        red = []
    pos = 0
    nviol = ndiff = 0
    for sc in scenarios:
        a, r = mem[pos:pos + len(sc)], red[pos:pos + len(sc)]
        pos += len(sc)
        sups = {fields(o).get("sup") for o in a} - {None, "-"}
        ctx.record("\n".join(sc), nontrivial=len(sups) >= 2 and any(" pubs=" in o and not o.endswith("pubs=- bc=-") for o in a))
        for l, o in zip(sc, a):
            ctx.count("op:" + l.split()[0])
            f = fields(o)
            if "sup" in f:
                ctx.count("sup:" + f["sup"])
            if "err" in f:
                ctx.count("err:" + f["err"])
        if not red:
            continue
        pa, pr = project_scenario(sc, a), project_scenario(sc, r)
        j = first_diff(pa, pr)
        if j is None:
            continue
        ndiff += 1
        if "VERIFMODEL" in r[j] if j < len(r) else False:
            ctx.count("model-unsupported")
        sig = classify(sc, j, pa, pr)
        ctx.count("diff:" + sig["kind"])
        small = sc[:j + 1]
        if sig["kind"] == "unclassified" and nviol < 2:
            def fails(body):
                s2 = [sc[0]] + list(body)
                m2, r2 = run_both(ctx, binary, s2)
                if r2 is None:
                    return False
                p2a, p2r = project_scenario(s2, m2), project_scenario(s2, r2)
                j2 = first_diff(p2a, p2r)
                return j2 is not None and classify(s2, j2, p2a, p2r) == sig
            try:
                small = [sc[0]] + list(ddmin(sc[1:j + 1], fails))
            except AssertionError:
                pass
            nviol += 1
        m2, r2 = run_both(ctx, binary, small) if small != sc[:j + 1] else (a[:j + 1], r[:j + 1])
        ctx.violation("property",
                      f"Redis and memory map brokers disagree at `{sc[j]}`: memory `{a[j] if j < len(a) else None}` "
                      f"vs redis `{r[j] if j < len(r) else None}`",
                      signature=sig,
                      replay={"ops": small, "memory_real": m2, "redis_real_glue_over_model": r2,
                              "note": "both halves are the real Go brokers; Redis itself is the Lean model behind the fake "
                                      "endpoint"})
    ctx.traces_validated = len(scenarios)
    ctx.extra["scenarios_with_a_disagreement"] = ndiff
    if not proofs_ok:
        ctx.proof_broken()
