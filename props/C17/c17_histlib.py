"""Shared generator / statement-level oracle / run loop for the memory-broker checks (C17, C19).

Op lines: see lean/CentrifugeVerif/Model/HistoryHubLine.lean.  A *scenario* is a `reset …` line
followed by ops with strictly increasing absolute times `@ms` (never a whole second).

The oracle is the property statement evaluated on the implementation's outputs.  It is *not* the
Lean model: it knows nothing about priority queues; expiry is nondeterministic for it ("a stream may
be cleared at a sweeper tick once its data deadline has passed, may be dropped once its meta deadline
has passed"), so it keeps a small set of candidate abstract states per channel and prunes the
candidates that do not explain an output.  No candidate left = the output cannot be explained by a
bounded append-only stream = property violation with a concrete replay.
"""
import json

U64MAX = 2 ** 64 - 1
DEFAULT_META = 30 * 24 * 3600 * 1000
DEFAULT_IDEM_S = 300


# ----------------------------------------------------------------------------- parsing
def kvs(ws):
    d = {}
    for w in ws:
        if "=" in w:
            k, v = w.split("=", 1)
            d[k] = v
        elif w.startswith("@"):
            d["@"] = int(w[1:])
    return d


def parse_op(line):
    ws = line.split()
    if not ws:
        return None
    k = ws[0]
    if k == "reset":
        return {"k": "reset", "meta": int(kvs(ws[1:])["meta"])}
    if k == "pub":
        d = kvs(ws[3:])
        return {"k": "pub", "ch": ws[1], "data": ws[2], "size": int(d["size"]), "ttl": int(d["ttl"]),
                "meta": int(d["meta"]), "idem": "" if d["idem"] == "-" else d["idem"], "ittl": int(d["ittl"]),
                "ver": int(d["ver"]), "vep": "" if d["vep"] == "-" else d["vep"], "delta": int(d["delta"]),
                "at": d["@"]}
    if k == "get":
        d = kvs(ws[2:])
        since = None
        if d["since"] != "-":
            o, e = d["since"].split(":")
            since = (int(o), int(e))
        return {"k": "get", "ch": ws[1], "since": since, "limit": int(d["limit"]), "rev": int(d["rev"]),
                "meta": int(d["meta"]), "at": d["@"]}
    if k == "rm":
        return {"k": "rm", "ch": ws[1], "at": kvs(ws[2:])["@"]}
    if k == "sleep":
        return {"k": "sleep", "at": kvs(ws[1:])["@"]}
    return None


def parse_items(s):
    if s == "-":
        return []
    out = []
    for w in s.split(","):
        o, d = w.split("/", 1)
        out.append((int(o), d))
    return out


def parse_pub_out(out):
    d = kvs(out.split())
    bc = None
    if d["bc"] != "-":
        head, dl, prev = d["bc"].split(";")
        item, sp = head.split("@")
        o, dat = item.split("/", 1)
        so, se = sp.split(":")
        p = prev[len("prev="):]
        bc = {"off": int(o), "data": dat, "sp": (int(so), int(se)), "delta": int(dl[2:]),
              "prev": None if p == "-" else (int(p.split("/", 1)[0]), p.split("/", 1)[1])}
    return {"off": int(d["off"]), "ep": int(d["ep"]), "sup": d["sup"], "bc": bc}


def parse_get_out(out):
    d = kvs(out.split())
    o, e = d["pos"].split(":")
    return {"top": int(o), "ep": int(e), "pubs": parse_items(d["pubs"])}


# ----------------------------------------------------------------------------- the statement
def take_lim(limit, l):
    return list(l) if limit < 0 else list(l[:limit])


def hist_spec(log, top, since, limit, rev):
    """History = the retained suffix filtered by since, limit and direction (natural reading).
    Returns None where the reading gives no answer the code is held to (reverse read since a
    position beyond top+1: no such position was ever handed out)."""
    log = list(log)
    if since is None:
        return take_lim(limit, log[::-1] if rev else log)
    o = since[0]
    if rev:
        if o > top + 1:
            return None
        return take_lim(limit, [x for x in log if x[0] < o][::-1])
    return take_lim(limit, [x for x in log if x[0] > o])


class Violation(Exception):
    def __init__(self, kind, msg, extra=None):
        Exception.__init__(self, msg)
        self.kind, self.msg, self.extra = kind, msg, extra or {}


class Chan:
    def __init__(self):
        self.cands = [None]      # None = no stream/meta; else (epoch, top, tuple(log))
        self.e_dead = None       # data deadline (s): clearing possible at ticks >= it
        self.r_dead = None       # meta deadline (s)
        # C19 bookkeeping
        self.held = None         # (version, vepoch) of the latest stored versioned publish
        self.held_epoch = None   # stream epoch it belongs to
        self.unver_since_held = False
        self.max_deadline = None  # max data deadline over unsuppressed publishes (s)
        self.saw_ver_suppressed = False
        self.max_meta_deadline = None  # max meta deadline over unsuppressed publishes and reads (s)
        self.saw_ver_suppressed_delta = False
        self.last_store_s = None     # second of the last stored publish (a later sweeper tick is needed)
        self.last_meta_touch_s = None  # second of the last unsuppressed meta refresh


class Oracle:
    """mode 'c17': bounded-stream semantics.  mode 'c19': additionally the idempotency / version
    statements."""

    def __init__(self, mode):
        self.mode = mode
        self.reset(DEFAULT_META)

    def reset(self, meta):
        self.meta = meta or DEFAULT_META
        self.ch = {}
        self.now_s = 0
        self.max_ep = 0
        self.idem = {}     # (ch, key) -> dict(pos, expire_ms)
        self.idem_all = {}  # cache-key string -> list of (ch, key)
        self.stats = {}
        # violations after which the tracked state is still reliable (the scenario goes on)
        self.soft = []

    def count(self, k):
        self.stats[k] = self.stats.get(k, 0) + 1

    def chan(self, ch):
        if ch not in self.ch:
            self.ch[ch] = Chan()
        return self.ch[ch]

    def advance(self, at_ms):
        now_s = at_ms // 1000
        if now_s > self.now_s:
            for c in self.ch.values():
                add = []
                if c.e_dead is not None and c.e_dead <= now_s:
                    for cand in c.cands:
                        if cand is not None and cand[2]:
                            add.append((cand[0], cand[1], ()))
                if c.r_dead is not None and c.r_dead <= now_s:
                    add.append(None)
                for a in add:
                    if a not in c.cands:
                        c.cands.append(a)
            self.now_s = now_s

    def eff_meta(self, m):
        return m if m != 0 else self.meta

    def touch_meta(self, c, m, suppressed=False):
        m = self.eff_meta(m)
        if m > 0:
            r = self.now_s + m // 1000
            c.r_dead = r if (not suppressed or c.r_dead is None) else min(c.r_dead, r)
            if not suppressed:
                c.max_meta_deadline = r if c.max_meta_deadline is None else max(c.max_meta_deadline, r)
                c.last_meta_touch_s = self.now_s

    def c19_meta_outlived(self, op, ep, c):
        """suppressed publishes change nothing — also not the lifetime of the stream metadata.  Called with
        the epoch an operation reports, before that operation's own refresh is recorded."""
        if self.mode != "c19":
            return
        if self.fresh(ep):
            c.max_meta_deadline, c.saw_ver_suppressed_delta = None, False
            return
        if (ep != 0 and c.saw_ver_suppressed_delta and c.max_meta_deadline is not None
                and self.now_s >= c.max_meta_deadline and self.now_s > c.last_meta_touch_s):
            c.saw_ver_suppressed_delta = False
            self.soft.append(Violation(
                "suppressed-delta-publish-extends-meta-ttl",
                f"stream of `{op['ch']}` still has epoch {ep} at second {self.now_s} although every meta-TTL "
                f"deadline set by an unsuppressed publish or a read ended at {c.max_meta_deadline}: a "
                f"version-suppressed publish with UseDelta refreshed the meta deadline (its delta read precedes the "
                f"version check)"))

    def fresh(self, ep):
        return ep == self.max_ep + 1

    def see(self, ep):
        if ep > self.max_ep:
            self.max_ep = ep

    # ------------------------------------------------------------------ ops
    def step(self, line, out):
        op = parse_op(line)
        if op is None:
            raise Violation("harness", "unparseable op " + line)
        if out == "PANIC":
            raise Violation("panic", "the broker panicked on: " + line)
        if out.startswith("err=") or out == "bad-op" or out == "<missing>":
            raise Violation("error", f"unexpected result `{out}` for `{line}`")
        if op["k"] == "reset":
            self.reset(op["meta"])
            return
        self.advance(op["at"])
        getattr(self, "op_" + op["k"])(op, out)

    def op_sleep(self, op, out):
        pass

    def op_rm(self, op, out):
        c = self.chan(op["ch"])
        c.cands = _dedup([None if x is None else (x[0], x[1], ()) for x in c.cands])

    def op_get(self, op, out):
        r = parse_get_out(out)
        c = self.chan(op["ch"])
        self.c19_meta_outlived(op, r["ep"], c)
        self.touch_meta(c, op["meta"])
        new = []
        wrapped = False
        for cand in c.cands:
            if cand is None:
                if self.fresh(r["ep"]) and r["top"] == 0 and not r["pubs"]:
                    new.append((r["ep"], 0, ()))
                continue
            ep, top, log = cand
            if (r["top"], r["ep"]) != (top, ep):
                continue
            exp = hist_spec(log, top, op["since"], op["limit"], op["rev"])
            if exp is None or exp == r["pubs"]:
                new.append(cand)
            elif (op["since"] is not None and not op["rev"] and op["since"][0] == U64MAX
                  and r["pubs"] == take_lim(op["limit"], list(log)) and r["pubs"]):
                wrapped = True
                new.append(cand)
        if not new:
            raise Violation("history", f"history result `{out}` for `{_short(op)}` is not the retained suffix "
                            f"filtered by since/limit/direction of any reachable stream state {_cands(c.cands)}")
        if any(x is not None and x[2] for x in c.cands) and all(not x[2] for x in new):
            self.count("observed:history-expired-or-removed")
        if any(x is not None for x in c.cands) and self.fresh(r["ep"]):
            self.count("observed:stream-dropped-new-epoch")
        c.cands = _dedup(new)
        self.see(r["ep"])
        if wrapped and all(x is not None and hist_spec(x[2], x[1], op["since"], op["limit"], op["rev"]) != r["pubs"]
                           for x in new):
            self.soft.append(Violation("since-maxuint64-forward-returns-stream",
                                       "forward history since offset 2^64-1 returned the retained stream instead "
                                       "of nothing (since.Offset+1 wraps to 0)"))
        if self.mode == "c19":
            self.c19_after_get(op, r, c)

    def op_pub(self, op, out):
        r = parse_pub_out(out)
        ch = op["ch"]
        c = self.chan(ch)
        hist_on = op["size"] > 0 and op["ttl"] > 0
        if self.mode == "c19":
            self.c19_idem(op, r)
        if r["sup"] == "idem":
            if r["bc"] is not None:
                raise Violation("suppressed-broadcast", "idempotency-suppressed publish reached subscribers")
            self.count("pub-idem-suppressed")
            return
        if not hist_on:
            if r["sup"] != "none" or (r["off"], r["ep"]) != (0, 0):
                raise Violation("nohistory", f"publish without history returned `{out}`")
            b = r["bc"]
            if b is None or (b["off"], b["data"], b["sp"], b["prev"]) != (0, op["data"], (0, 0), None):
                raise Violation("broadcast", f"publish without history broadcast `{out}`")
            self.count("pub-nohistory")
            return
        e_new = self.now_s + op["ttl"] // 1000
        if r["sup"] == "ver":
            if r["bc"] is not None:
                raise Violation("suppressed-broadcast", "version-suppressed publish reached subscribers")
            new = [x for x in c.cands if x is not None and (x[1], x[0]) == (r["off"], r["ep"])]
            if not new:
                raise Violation("position", f"version-suppressed publish returned `{out}`, not the current top "
                                f"position of any reachable stream state {_cands(c.cands)}")
            c.cands = _dedup(new)
            c.e_dead = e_new if c.e_dead is None else min(c.e_dead, e_new)
            self.c19_meta_outlived(op, r["ep"], c)
            self.touch_meta(c, op["meta"], suppressed=True)
            if op["delta"]:
                c.saw_ver_suppressed_delta = True
            self.count("pub-ver-suppressed")
            if self.mode == "c19":
                self.c19_version(op, r, c, suppressed=True)
            return
        if r["sup"] != "none":
            raise Violation("suppress-reason", f"unknown suppress outcome in `{out}`")
        new = []
        for cand in c.cands:
            if cand is None:
                if self.fresh(r["ep"]) and r["off"] == 1:
                    prev, nlog = None, ((1, op["data"]),)[-op["size"]:]
                    ncand = (r["ep"], 1, nlog)
                else:
                    continue
            else:
                ep, top, log = cand
                if r["ep"] != ep or r["off"] != top + 1:
                    continue
                prev = log[-1] if log else None
                ncand = (ep, top + 1, (log + ((top + 1, op["data"]),))[-op["size"]:])
            b = r["bc"]
            if b is None:
                continue
            want_prev = prev if op["delta"] else None
            if (b["off"], b["data"], b["sp"], b["delta"], b["prev"]) != \
                    (r["off"], op["data"], (r["off"], r["ep"]), op["delta"], want_prev):
                continue
            new.append(ncand)
        if not new:
            raise Violation("position", f"stored publish returned `{out}`: offset/epoch/broadcast not explained by "
                            f"any reachable stream state {_cands(c.cands)} (offsets must continue at top+1 in the "
                            f"same epoch, or start at 1 in a fresh epoch after the metadata was discarded)")
        if any(x is not None for x in c.cands) and self.fresh(r["ep"]):
            self.count("observed:stream-dropped-new-epoch")
        c.cands = _dedup(new)
        self.c19_meta_outlived(op, r["ep"], c)   # before see(): it needs to know whether the epoch is fresh
        self.see(r["ep"])
        c.e_dead = e_new
        c.max_deadline = e_new if c.max_deadline is None else max(c.max_deadline, e_new)
        c.last_store_s = self.now_s
        self.touch_meta(c, op["meta"])
        self.count("pub-stored")
        if self.mode == "c19":
            self.c19_version(op, r, c, suppressed=False)

    # ------------------------------------------------------------------ C19 statements
    def c19_idem(self, op, r):
        """idempotency half of C19, evaluated before anything else of the publish."""
        key = op["idem"]
        if not key:
            if r["sup"] == "idem":
                raise Violation("idem-without-key", "publish without idempotency key suppressed by idempotency")
            return
        now = op["at"]
        ent = self.idem.get((op["ch"], key))
        live = ent is not None and now < ent["expire"]
        if live:
            if r["sup"] != "idem":
                raise Violation("idem-not-suppressed",
                                f"publish repeats idempotency key `{key}` within its result TTL but was not "
                                f"suppressed as idempotent: `{_pubout(r)}`")
            if (r["off"], r["ep"]) != ent["pos"]:
                raise Violation("idem-position", f"idempotent repeat returned {(r['off'], r['ep'])}, original was "
                                f"{ent['pos']}")
            self.count("idem-hit")
            return
        if r["sup"] == "idem":
            # not a repeat of (channel, key) within TTL: which other publish explains it?
            ck = op["ch"] + "_" + key
            other = [k for k in self.idem_all.get(ck, []) if k != (op["ch"], key)
                     and now < self.idem[k]["expire"]]
            if other:
                self.soft.append(Violation("idempotency-key-collision-across-channels",
                                f"publish to `{op['ch']}` with fresh key `{key}` was suppressed as a duplicate of "
                                f"(channel, key) = {other[0]} (result cache key is channel+\"_\"+key)"))
                return
            if ent is not None:
                raise Violation("idem-after-ttl", f"publish with key `{key}` after its result TTL was still "
                                f"suppressed (must be a fresh publish)")
            raise Violation("idem-spurious", f"publish with never-used key `{key}` suppressed as idempotent")
        # fresh keyed publish: remember it when the broker saved a result (not version-suppressed)
        if r["sup"] == "none":
            secs = op["ittl"] // 1000 if op["ittl"] != 0 else DEFAULT_IDEM_S
            self.idem[(op["ch"], key)] = {"pos": (r["off"], r["ep"]), "expire": now + secs * 1000}
            self.idem_all.setdefault(op["ch"] + "_" + key, [])
            if (op["ch"], key) not in self.idem_all[op["ch"] + "_" + key]:
                self.idem_all[op["ch"] + "_" + key].append((op["ch"], key))
            self.count("idem-saved")

    def c19_version(self, op, r, c, suppressed):
        """version half: suppressed exactly when the channel already holds an equal or higher version in
        the same version epoch; unversioned publishes do not reset that protection."""
        if c.held is not None and c.held_epoch != r["ep"]:
            c.held, c.unver_since_held = None, False   # the stream (and its version) was discarded
        should = (op["ver"] > 0 and c.held is not None and (op["vep"] == "" or op["vep"] == c.held[1])
                  and op["ver"] <= c.held[0])
        if suppressed:
            c.saw_ver_suppressed = True
        if should and not suppressed:
            if c.unver_since_held:
                self.soft.append(Violation(
                    "version-protection-reset-by-unversioned",
                    f"publish version {op['ver']} <= held version {c.held[0]} was stored: an "
                    f"unversioned publish in between reset the channel's version protection"))
            else:
                raise Violation("version-not-suppressed", f"publish version {op['ver']} (epoch `{op['vep']}`) stored "
                            f"although the channel holds {c.held}")
        if suppressed and not should:
            raise Violation("version-spurious", f"publish version {op['ver']} (epoch `{op['vep']}`) suppressed "
                            f"although the channel holds {c.held}")
        if not suppressed:
            if op["ver"] > 0:
                c.held, c.held_epoch, c.unver_since_held = (op["ver"], op["vep"]), r["ep"], False
                self.count("ver-stored")
            elif c.held is not None:
                c.unver_since_held = True
        else:
            self.count("ver-suppressed-ok")

    def c19_after_get(self, op, r, c):
        """suppressed publishes change nothing — also not the history's lifetime."""
        if (r["pubs"] and c.saw_ver_suppressed and c.max_deadline is not None and self.now_s >= c.max_deadline
                and self.now_s > c.last_store_s):
            self.soft.append(Violation(
                "suppressed-publish-extends-history-ttl",
                f"history of `{op['ch']}` still has publications at second {self.now_s} although the "
                f"TTL of every stored publication ended at {c.max_deadline}: a version-suppressed "
                f"publish refreshed the expiry deadline"))


def _dedup(l):
    out = []
    for x in l:
        if x not in out:
            out.append(x)
    return out


def _cands(cs):
    return "[" + "; ".join("none" if x is None else f"ep{x[0]} top{x[1]} log{[o for o, _ in x[2]]}" for x in cs) + "]"


def _short(op):
    return " ".join(f"{k}={v}" for k, v in op.items() if k != "k")


def _pubout(r):
    return f"off={r['off']} ep={r['ep']} sup={r['sup']}"


def check_scenario_all(mode, ops, outs):
    """Returns ([(index, Violation)…], stats): the soft violations (state stays reliable, the scenario
    goes on) in order, then at most one hard violation (the scenario stops there)."""
    o = Oracle(mode)
    found = []
    for i, (line, out) in enumerate(zip(ops, outs)):
        if not line or line.startswith("#"):
            continue
        try:
            o.step(line, out)
        except Violation as v:
            found += [(i, s) for s in o.soft] + [(i, v)]
            return found, o.stats
        found += [(i, s) for s in o.soft]
        o.soft = []
    if len(outs) < len(ops):
        found.append((len(outs), Violation("crash", "implementation produced no output (crash?)")))
    return found, o.stats


def check_scenario(mode, ops, outs):
    """Returns (None, stats) or ((index, first Violation), stats)."""
    found, stats = check_scenario_all(mode, ops, outs)
    return (found[0] if found else None), stats


# ----------------------------------------------------------------------------- generator
def gen_scenario(rng, profile, nops=30):
    c19 = profile == "c19"
    lines = [f"reset meta={rng.choice([0, 0, 3000, 5000, 10000, 60000])}"]
    chans = rng.choice([["a"], ["a", "b"], ["a", "a_b", "b"]])
    ttls = rng.choice([[1000, 2000, 3000], [2000, 5000, 10000], [1000, 1500, 500, 999, 3000], [10000, 60000]])
    sizes = rng.choice([[1, 2, 3], [3, 5], [2, 10], [1]])
    metas = rng.choice([[0], [0, 1000, 2000], [2000, 4000, 8000], [500, 1000, 0]])
    keys = ["k1", "k2", "b_k1"] if c19 else ["k1", "k2"]
    p_idem = rng.choice([0.3, 0.6]) if c19 else rng.choice([0.0, 0.1])
    p_ver = rng.choice([0.4, 0.7]) if c19 else rng.choice([0.0, 0.1])
    big = rng.random() < 0.15
    t = rng.randint(1, 999)
    npub = {c: 0 for c in chans}
    bounds = []   # (ExpireAt ms, channel, key, ittl) of keyed publishes: repeat exactly at / 1 ms before the boundary
    for i in range(nops):
        r = rng.random()
        if c19 and bounds and rng.random() < 0.12:
            e, bch, bkey, bittl = rng.choice(bounds)
            bt = e - rng.choice([0, 0, 1])
            if bt > t:
                t = bt
                lines.append(f"pub {bch} d{i} size={rng.choice(sizes)} ttl={rng.choice(ttls)} meta={rng.choice(metas)} "
                             f"idem={bkey} ittl={bittl} ver=0 vep=- delta=0 @{t}")
                npub[bch] += 1
                continue
        if r < 0.55:
            t += rng.randint(1, 400)
        elif r < 0.8:
            t += rng.randint(400, 2500)
        elif r < 0.95:
            t += rng.randint(2500, 12000)
        else:
            t += rng.randint(12000, 70000)
        if t % 1000 == 0:
            t += 1
        ch = rng.choice(chans)
        k = rng.random()
        if k < (0.6 if c19 else 0.5):
            size = rng.choice(sizes) if rng.random() > 0.03 else 0
            ttl = rng.choice(ttls) if rng.random() > 0.03 else 0
            meta = rng.choice(metas)
            idem, ittl = "-", 0
            if rng.random() < p_idem:
                idem = rng.choice(keys)
                ittl = rng.choice([0, 1000, 2000, 3000, 5000, 1500, 500])
                if ittl >= 1000:
                    bounds.append((t + (ittl // 1000) * 1000, ch, idem, ittl))
            ver, vep = 0, "-"
            if rng.random() < p_ver:
                ver = rng.randint(1, 6)
                if big:
                    ver = rng.choice([2 ** 53 - 1, 2 ** 53, 2 ** 53 + 1, 2 ** 63, U64MAX - 1, U64MAX])
                vep = rng.choice(["-", "-", "-", "x", "y"]) if c19 else "-"
            delta = 1 if rng.random() < 0.25 else 0
            lines.append(f"pub {ch} d{i} size={size} ttl={ttl} meta={meta} idem={idem} ittl={ittl} ver={ver} "
                         f"vep={vep} delta={delta} @{t}")
            npub[ch] += 1
        elif k < 0.88:
            since = "-"
            if rng.random() < 0.6:
                n = npub[ch]
                offs = [0, 1, 2, 3, max(n - 1, 0), n, n + 1, n + 2, 2 ** 63]
                if not c19 and rng.random() < 0.04:
                    offs = [U64MAX]
                since = f"{rng.choice(offs)}:{rng.choice([0, 1, 1, 2, 3, 99])}"
            limit = rng.choice([-1, -1, -1, 0, 1, 2, 3, 10, -7])
            rev = 1 if rng.random() < 0.4 else 0
            lines.append(f"get {ch} since={since} limit={limit} rev={rev} meta={rng.choice(metas)} @{t}")
        elif k < 0.93:
            lines.append(f"rm {ch} @{t}")
        else:
            lines.append(f"sleep @{t}")
    return lines


def split_scenarios(ops):
    out, cur = [], None
    for i, l in enumerate(ops):
        if l.startswith("reset"):
            cur = [i, i + 1]
            out.append(cur)
        elif cur is not None:
            cur[1] = i + 1
    return [(a, b) for a, b in out]


# ----------------------------------------------------------------------------- run loop
HARNESS = "props/C17/harness/zz_verif_hist_test.go"
TEST = "TestVerifHist"


def shrink(ctx, binary, mode, scen, kind):
    """ddmin over the ops of one scenario (the reset line stays) keeping the same violation kind."""
    from vlib.core import ddmin
    head, body = scen[0], list(scen[1:])
    budget = [60]

    def fails(sub):
        if budget[0] <= 0:
            return False
        budget[0] -= 1
        ops = [head] + list(sub)
        outs = ctx.go_run(binary, TEST, ops)
        found, _ = check_scenario_all(mode, ops, outs)
        return any(v.kind == kind for _, v in found)
    try:
        body = ddmin(body, fails)
    except AssertionError:
        pass
    return [head] + list(body)


def run_hist(ctx, mode, exe, corpus_path, findings_path, n_quick, n_thorough, nops=30):
    proofs_ok = ctx.lean_obligations()
    binary = ctx.go_test_binary(".", [HARNESS])
    if binary is None:
        ctx.violation("correspondence", "harness no longer builds against package centrifuge",
                      signature={"kind": "harness-build"}, replay={"log": getattr(ctx, "build_error", "")},
                      no_input=True)
        return
    scenarios = []          # (origin, [lines])
    if ctx.replay:
        ops = json.load(open(ctx.replay)).get("ops", [])
        for a, b in split_scenarios(ops):
            scenarios.append(("replay", ops[a:b]))
    else:
        try:
            for f in json.load(open(findings_path)).get("findings", []):
                if f.get("status") == "known":   # fixed ones live on in the corpus: a regression is a VIOLATION
                    scenarios.append(("finding:" + f["id"], f["replay"]["ops"]))
        except FileNotFoundError:
            pass
        corpus = [l.rstrip("\n") for l in open(corpus_path) if l.strip() and not l.startswith("#")]
        for a, b in split_scenarios(corpus):
            scenarios.append(("corpus", corpus[a:b]))
        n = ctx.scale(n_quick, n_thorough)
        for _ in range(n):
            scenarios.append(("gen", gen_scenario(ctx.rng, mode, nops)))
    ops = [l for _, s in scenarios for l in s]
    impl = ctx.go_run(binary, TEST, ops)
    if ctx.last_go_crash:
        ctx.notes.append("go harness: " + str(ctx.last_go_crash)[-400:])
    model = ctx.lean_run(ops, exe=exe)
    if model is None:
        proofs_ok = False
        model = []
    pos = 0
    nviol = {}
    ndiff = 0
    for origin, scen in scenarios:
        a, b = pos, pos + len(scen)
        pos = b
        outs = impl[a:b]
        mouts = model[a:b]
        found, stats = check_scenario_all(mode, scen, outs)
        for k, v in stats.items():
            ctx.count(k, v)
        for l in scen:
            ctx.count("op:" + l.split()[0])
        ctx.record(scen, nontrivial=len(scen) > 2)
        failing_input = bool(found)
        seen_kinds = set()
        for i, v in found:
            if v.kind in seen_kinds:
                continue
            seen_kinds.add(v.kind)
            nviol[v.kind] = nviol.get(v.kind, 0) + 1
            ctx.count("oracle:" + v.kind)
            if nviol[v.kind] <= 1:
                small = shrink(ctx, binary, mode, scen[:i + 1], v.kind)
                souts = ctx.go_run(binary, TEST, small)
                sfound, _ = check_scenario_all(mode, small, souts)
                msg = next((x.msg for _, x in sfound if x.kind == v.kind), v.msg)
                ctx.violation("property", msg, signature={"kind": v.kind, "mode": mode},
                              replay={"ops": small, "impl": souts, "origin": origin})
        if not found and origin.startswith("finding:"):
            ctx.notes.append(f"{origin}: stored replay no longer violates the property (fixed upstream?)")
        # correspondence
        for j, (line, x, y) in enumerate(zip(scen, outs + ["<missing>"] * len(scen), mouts + ["<missing>"] * len(scen))):
            if x != y:
                ndiff += 1
                if ndiff <= 3 and model:
                    ctx.violation("correspondence",
                                  f"model and implementation differ at op {j} `{line}`: impl `{x}` model `{y}`",
                                  signature={"kind": "diff", "op": line.split()[0]},
                                  replay={"ops": scen[:j + 1], "impl": outs[:j + 1], "model": mouts[:j + 1],
                                          "correspondence": "Model/HistoryHub.lean vs broker_memory.go"},
                                  no_input=not failing_input)
                break
    ctx.traces_validated = len(scenarios)
    ctx.extra["disagreements"] = ndiff
    ctx.extra["ops_total"] = len(ops)
    if not proofs_ok:
        ctx.proof_broken()
