"""C17 — memory stream broker = bounded append-only stream.

Proof: lean/CentrifugeVerif/Props/C17.lean over Model/Stream.lean + Model/HistoryHub.lean.
Tie: the real MemoryBroker (its own sweeper goroutines on a `testing/synctest` virtual clock) and the
Lean driver run the same op timelines; outputs are diffed.  Oracle: the property statement (bounded
stream with nondeterministic expiry) evaluated on the implementation's outputs.
"""
import os
import sys

sys.path.insert(0, os.path.join(os.path.dirname(os.path.abspath(__file__))))
import c17_histlib as H  # noqa: E402


def run(ctx):
    ctx.rule = ("random op timelines on 1-3 channels: publish (size/TTL/metaTTL/delta, few keyed or versioned), "
                "history (since incl. 0, top±, 2^63, 2^64-1; limit <0/0/>0; reverse), remove, sleeps crossing TTL and "
                "meta-TTL boundaries, ops at non-whole-second times; 30 ops per timeline; one case = one timeline; "
                "non-trivial = has ops; distinct = distinct timeline")
    ctx.assumptions = [
        "epoch.Generate() returns pairwise distinct non-empty strings (epochs are compared as first-seen indices)",
        "uint64 wrap-around of a stream's top offset is out of scope",
        "durations are whole milliseconds >= 0",
        "a reverse read since an offset beyond top+1 is outside the statement (code returns nothing; recorded quirk)",
    ]
    H.run_hist(ctx, "c17", "drv_c17", "props/C17/corpus.ops", "props/C17/findings.json", 1000, 30000)
