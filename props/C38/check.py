"""C38 — channel medium preserves delivery guarantees.

Proof: lean/CentrifugeVerif/Props/C38.lean over Model/Medium.lean (channelMedium: routing, bounded
queue with drop, writer with broadcastDelay coalescing, insufficient-state sentinel) composed with
Model/Live.lean (writePublicationUpdatePosition).
Tie: a real Node with Config.GetChannelMediumOptions (random option combinations, unexported
options reachable in-package), positioned / non-positioned / server-side positioned real Clients on
one channel, publications fed through Node.HandlePublication inside a testing/synctest bubble
(virtual clock for broadcastDelay), compared with the Lean driver on the deterministic scenarios;
the property statement is evaluated on what the real transports received for all scenarios
(the racy ones — queue without delay fed in bursts — are judged by the oracle alone).
"""
import json
import os
import subprocess
from concurrent.futures import ThreadPoolExecutor

HARNESS = ["props/C38/harness/root/zz_verif_c38_test.go"]
CHECK_PAUSE = 42000


# ----------------------------------------------------------------------------- scenarios
def fmt(sc):
    evs = []
    for e in sc["ev"]:
        if e[1] == "pub":
            s = f"{e[0]}:pub:{e[2]}:{e[3]}"
            if e[4] != 1:
                s += f":{e[4]}"
        elif e[1] == "insuff":
            s = f"{e[0]}:insuff"
        elif e[1] in ("rel", "top", "tick"):
            s = f"{e[0]}:{e[1]}:{e[2]}"
        else:
            s = f"{e[0]}:check:{e[2]}:{e[3]}"
        evs.append(s)
    head = "sc "
    if sc.get("nomedium"):
        head += "nomedium=1 "
    if sc.get("gate"):
        head += "gate=1 "
    return (head + f"klp={sc['klp']} sps={sc['sps']} q={sc['q']} qmax={sc['qmax']} delay={sc['delay']} "
            f"subs={','.join(sc['subs']) or '-'} top={sc['top']} mode={sc['mode']} ev={';'.join(evs) or '-'} end={sc['end']}")


def parse(op):
    kv = dict(w.split("=", 1) for w in op.split()[1:])
    evs = []
    if kv.get("ev", "-") not in ("-", ""):
        for w in kv["ev"].split(";"):
            p = w.split(":")
            if p[1] == "pub":
                evs.append([int(p[0]), "pub", int(p[2]), int(p[3]), int(p[4]) if len(p) > 4 else 1])
            elif p[1] == "insuff":
                evs.append([int(p[0]), "insuff"])
            elif p[1] in ("rel", "top", "tick"):
                evs.append([int(p[0]), p[1], int(p[2])])
            else:
                evs.append([int(p[0]), "check", int(p[2]), int(p[3])])
    return {"gate": kv.get("gate") == "1", "nomedium": kv.get("nomedium") == "1", "klp": int(kv["klp"]), "sps": int(kv["sps"]), "q": int(kv["q"]),
            "qmax": int(kv["qmax"]), "delay": int(kv["delay"]),
            "subs": [] if kv["subs"] in ("-", "") else kv["subs"].split(","), "top": int(kv["top"]),
            "mode": kv["mode"], "ev": evs, "end": int(kv["end"])}


def medium_enabled(sc):
    return (not sc["nomedium"]) and bool(sc["klp"] or sc["sps"] or sc["q"] or sc["delay"] > 0)


def deterministic(sc):
    """Scenarios whose outcome does not depend on goroutine scheduling (see the harness header)."""
    if sc.get("gate"):
        # tokens may let several broadcasts through back to back: race-free only for monotone single-epoch
        # publications without markers / checks (an ended subscriber's removal is asynchronous)
        offs = [e[2] for e in sc["ev"] if e[1] == "pub"]
        return (sc["mode"] == "each" and all(b > a for a, b in zip(offs, offs[1:]))
                and not any(e[1] in ("insuff", "check", "tick") or (e[1] == "pub" and e[4] != 1) for e in sc["ev"]))
    if sc["mode"] == "each":
        return True
    if any(e[1] in ("tick", "top") for e in sc["ev"]):
        return False
    if medium_enabled(sc) and sc["q"] and sc["delay"] == 0:
        return False                      # writer goroutine drains concurrently with the producer
    # burst without settling: once a positioned subscriber is in insufficient state its removal is
    # asynchronous; only monotone single-epoch bursts with markers last in their burst are race-free
    offs = [e[2] for e in sc["ev"] if e[1] == "pub"]
    if any(b <= a for a, b in zip(offs, offs[1:])):
        return False
    if any(e[1] == "pub" and e[4] != 1 for e in sc["ev"]):
        return False
    for i, e in enumerate(sc["ev"]):
        if e[1] in ("insuff", "check") and i + 1 < len(sc["ev"]) and sc["ev"][i + 1][0] == e[0]:
            return False
    return True


def gen_gated(rng):
    """The writer is held inside broadcasts while bursts arrive: the queue's ring buffer wraps, grows and shrinks
    with the head off-centre.  No overflow unless qmax is small."""
    top = rng.choice([0, 5, 10, 1000])
    subs = ["n"] + [rng.choice(["p", "n", "s"]) for _ in range(rng.randint(0, 2))]
    rng.shuffle(subs)
    t, o, evs, held = 100, top, [], 0
    for _ in range(rng.randint(3, 12)):
        for _ in range(rng.choice([1, 2, 3, 4, 5, 7])):
            if rng.random() < 0.03:
                evs.append([t, "insuff"])          # (makes the scenario oracle-only)
            else:
                o += 1
                evs.append([t, "pub", o, rng.choice([2, 5, 10]), 1])
            held += 1
        t += rng.choice([5, 20, 50])
        k = rng.choice([0, 1, 1, 2, 3, held])
        if k:
            evs.append([t, "rel", k])
            held = max(0, held - k)
            t += rng.choice([5, 20])
    return {"gate": True, "nomedium": False, "klp": rng.randint(0, 1), "sps": rng.randint(0, 1), "q": 1,
            "qmax": rng.choice([0, 0, 0, 100000, 30]), "delay": 0, "subs": subs, "top": top, "mode": "each",
            "ev": evs, "end": t + 200}


CHECK_DELAY = 40000


def gen_sync(rng):
    """Periodic position sync: several positioned subscribers, publications, then the broker's top moves on without
    a delivery (lost trailing publication, no later traffic) and the subscribers' ticks arrive interleaved, each
    subscriber's own ticks > 40 s apart but the medium seeing calls much closer together."""
    top = rng.choice([0, 5, 10, 1000])
    subs = [rng.choice(["p", "p", "s"]) for _ in range(rng.randint(2, 3))] + (["n"] if rng.random() < 0.4 else [])
    q = rng.randint(0, 1)
    evs, o, t = [], top, 100
    for _ in range(rng.randint(1, 4)):
        o += 1
        evs.append([t, "pub", o, 10, 1])
        t += rng.choice([10, 200, 1000])
    lost = rng.random() < 0.8
    t = rng.choice([2000, 20000, 30000, 36000])
    if rng.random() < 0.6:
        evs.append([t, "pub", o, 10, 1])                 # a stale copy: stamps the medium, not the clients
        t += rng.choice([1, 500, 3000])
    evs.append([t, "top", o + 1 if lost else o])
    pos = [i for i, k in enumerate(subs) if k != "n"]
    start = 42000 + rng.choice([0, 500, 2500])
    gap = rng.choice([7000, 15000, 21000, 30000])
    last = {}
    t = max(t + 10, start)
    for k in range(rng.randint(3, 9)):
        i = pos[k % len(pos)] if rng.random() < 0.85 else rng.choice(pos)
        if i in last and t - last[i] < 42000:
            t = last[i] + 42000 + rng.choice([0, 300])
        evs.append([t, "tick", i])
        last[i] = t
        t += gap + rng.choice([0, 137, 900])
    return {"gate": False, "nomedium": rng.random() < 0.05, "klp": rng.randint(0, 1), "sps": 1 if rng.random() < 0.8 else 0,
            "q": q, "qmax": 0, "delay": rng.choice([0, 0, 20]) if q else 0, "subs": subs, "top": top, "mode": "each",
            "ev": evs, "end": t + 1000}


def gen_queue(rng):
    """Add/Remove walk over publicationQueue: fill and drain phases so that the ring wraps, doubles and halves
    with the head at every offset."""
    ops, n = [], 0
    for _ in range(rng.randint(2, 10)):
        for _ in range(rng.choice([1, 2, 3, 5, 8, 13])):
            ops.append("i" if rng.random() < 0.05 else "a")
            n += 1
        for _ in range(rng.choice([0, 1, 2, 3, 5, n, n + 1])):
            ops.append("r")
            n = max(0, n - 1)
    return f"q cap={rng.choice([1, 2, 2, 2, 3, 4])} ops={','.join(ops)}"


def oracle_queue(op, out):
    """publicationQueue is a FIFO: Remove returns what was added, in Add order, nothing lost or invented;
    Len / Size are those of the queued items."""
    ops = dict(w.split("=", 1) for w in op.split()[1:])["ops"].split(",")
    toks = out.split()
    if any(t.startswith("PANIC") for t in toks):
        return "publicationQueue panicked: " + out[-120:]
    if len(toks) != len(ops):
        return None
    fifo, nid = [], 0
    for o, t in zip(ops, toks):
        f = t.split(":")
        if o in ("a", "i"):
            nid += 1
            fifo.append((nid, o == "i"))
            st = f[1]
        else:
            want = "-"
            if fifo:
                i, ins = fifo.pop(0)
                want = f"I{i}" if ins else str(i)
            if f[1] != want:
                return f"Remove returned {f[1]}, the FIFO head is {want}"
            st = f[2]
        cnt, _, size = st.split("/")
        if int(cnt) != len(fifo):
            return f"Len() = {cnt} with {len(fifo)} items queued"
        if int(size) != sum(i % 5 + 1 for i, ins in fifo if not ins):
            return f"Size() = {size} does not match the queued publications"
    return None


def gen(rng):
    r = rng.random()
    if r < 0.2:
        return gen_gated(rng)
    if r < 0.35:
        return gen_sync(rng)
    klp, sps, q = (rng.randint(0, 1) for _ in range(3))
    delay = rng.choice([0, 0, 20, 50]) if q else (20 if rng.random() < 0.03 else 0)
    qmax = rng.choice([0, 15, 25, 40, 100]) if q else 0
    nomedium = rng.random() < 0.05
    subs = [rng.choice(["p", "p", "n", "s"]) for _ in range(rng.randint(1, 4))]
    top = rng.choice([0, 5, 10, 1000, 2 ** 40])
    mode = "each" if rng.random() < 0.55 else "burst"
    t, o = 100, top
    evs = []
    expected = top
    if delay > 0 and top > 0 and rng.random() < 0.3:
        # first coalescing window: a stale copy, the insufficient-state marker, the next offset
        evs += [[t, "pub", top, 10, 1], [t, "insuff"], [t, "pub", top + 1, 10, 1]]
        o = top + 1
        t += rng.choice([5, 60, 200])
    for _ in range(rng.choice([1, 2, 3, 4, 6])):
        for _ in range(rng.choice([1, 1, 2, 3, 5, 8])):
            r = rng.random()
            if r < 0.80:
                o += 1
                evs.append([t, "pub", o, rng.choice([2, 5, 10, 10, 20]), 1])
            elif r < 0.86:
                o += rng.randint(2, 3)                                    # broker-level gap
                evs.append([t, "pub", o, 10, 1])
            elif r < 0.90:
                evs.append([t, "pub", max(1, o - rng.randint(0, 2)), 10, 1])   # duplicate / stale
            elif r < 0.93:
                o += 1
                evs.append([t, "pub", o, 10, 2])                          # epoch change
            elif r < 0.97:
                evs.append([t, "insuff"])
            else:
                i = rng.randrange(len(subs))
                evs.append([t, "check", i, o if rng.random() < 0.5 else o + rng.randint(1, 2)])
        if delay > 0 and rng.random() < 0.2:
            # sentinel sandwiched between a stale copy and the next offset inside one coalescing window
            evs.append([t, "pub", max(1, o), 10, 1])
            evs.append([t, "insuff"])
            o += 1
            evs.append([t, "pub", o, 10, 1])
        t += rng.choice([5, 20, 30, 50, 70, 200])
    end = t + 12 * max(delay, 10) + 100
    return {"nomedium": nomedium, "klp": klp, "sps": sps, "q": q, "qmax": qmax, "delay": delay, "subs": subs,
            "top": top, "mode": mode, "ev": evs, "end": end}


# ----------------------------------------------------------------------------- oracle
def is_subseq(a, b):
    it = iter(b)
    return all(x in it for x in a)


def parse_out(out):
    kv = {}
    for w in out.split():
        k, _, v = w.partition("=")
        kv[k] = v
    subs = []
    i = 0
    while f"s{i}" in kv:
        kind, pubs, end, pos = kv[f"s{i}"].split("/")
        subs.append({"kind": kind, "pubs": [x for x in pubs.split("+") if x], "end": end, "pos": pos})
        i += 1
    bc = None if kv.get("bc") == "none" else [x for x in kv.get("bc", "").split(",") if x]
    return kv.get("sub"), bc, subs


def oracle(op, out):
    """C38's statement on what the real transports received.  None or (message, signature)."""
    sc = parse(op)
    if out.startswith("PANIC"):
        return ("panic in the implementation: " + out, {"kind": "panic"})
    if out.startswith("harness-error") or out in ("<missing>", "bad-op"):
        return None
    sub, bc, subs = parse_out(out)
    if sub != "ok":
        return None  # the server refused the subscription (invalid option combination)
    med = medium_enabled(sc)
    base = {"q": sc["q"], "delay": int(sc["delay"] > 0), "mode": sc["mode"]}
    incoming = [str(e[2]) for e in sc["ev"] if e[1] == "pub"]
    if med:
        if bc is None:
            return ("medium enabled but no medium was created", dict(base, kind="no-medium"))
        if "NIL" in bc:
            return ("the medium handed a zero-valued queue entry (nil publication) to the broadcast",
                    dict(base, kind="nil-broadcast"))
        bcp = [x for x in bc if x != "M"]
        total = sum(e[3] for e in sc["ev"] if e[1] == "pub")
        if sc["q"] and sc["delay"] == 0 and "n" in sc["subs"] and total <= (sc["qmax"] or 16 * 1024 * 1024) \
                and bcp != incoming:
            return (f"queue without delay and below its size bound must forward every publication in order: "
                    f"got {bcp} for {incoming}", dict(base, kind="queue-lost-or-reordered"))
        if not is_subseq(bcp, incoming):
            return (f"medium broadcast {bcp} is not an in-order subsequence of the channel's publications {incoming}",
                    dict(base, kind="medium-order"))
        stream = bcp
    else:
        stream = incoming
    # periodic sync: a position loss (broker top moved on, nothing delivered since) must be detected by the first
    # real position check that is due: a tick that passes the client's own gate (≥ 42 s after that subscriber's
    # previous tick and after the last delivery) and comes ≥ delay after the last stamp of the medium
    tops = [(e[0], e[2]) for e in sc["ev"] if e[1] == "top"]
    if tops and not any(e[1] == "check" for e in sc["ev"]):
        t_loss, new_top = tops[-1]
        arrivals = [e[0] for e in sc["ev"] if e[1] in ("pub", "insuff")]
        t0 = max([t_loss] + arrivals)
        last_tick, due = {}, None
        for e in sc["ev"]:
            if e[1] != "tick":
                continue
            prev = max([last_tick.get(e[2], 0)] + [a for a in arrivals if a <= e[0]])
            counts = e[0] - prev >= 42000
            last_tick[e[2]] = e[0]
            if counts and e[0] >= t0 + CHECK_DELAY + 1000 and e[2] < len(subs) and subs[e[2]]["kind"] != "n":
                due = e
                break
        if due is not None:
            i = due[2]
            shared = med and sc["sps"]
            for j, sj in enumerate(subs):
                if sj["kind"] == "n" or sj["end"] != "none" or sj["pos"] == str(new_top):
                    continue
                if j == i or shared:
                    return (f"the broker's top moved to {new_top} at {t_loss} ms without a delivery; subscriber {i}'s tick at "
                            f"{due[0]} ms was due for a real position check, yet positioned subscriber {j} is still "
                            f"subscribed at position {sj['pos']} (position loss never detected)",
                            dict(base, kind="loss-not-detected", shared=int(bool(shared))))
    for i, s in enumerate(subs):
        if "M" in s["pubs"]:
            return (f"subscriber {i} was pushed the MaxUint64 sentinel publication", dict(base, kind="sentinel-pushed", sub=s["kind"]))
        if not is_subseq(s["pubs"], stream):
            return (f"subscriber {i} ({s['kind']}) received {s['pubs']}, not an in-order subsequence of {stream}",
                    dict(base, kind="sub-order", sub=s["kind"]))
        if s["kind"] == "n":
            if s["end"] != "none":
                return (f"non-positioned subscriber {i} lost its subscription ({s['end']})",
                        dict(base, kind="np-ended", end=s["end"]))
            if s["pubs"] != stream:
                return (f"non-positioned subscriber {i} received {s['pubs']} but the channel broadcast was {stream}",
                        dict(base, kind="np-missed"))
            continue
        want_end = "unsub:2500" if s["kind"] == "p" else "disc:3010"
        if s["end"] not in ("none", want_end):
            return (f"positioned subscriber {i} ended with {s['end']}", dict(base, kind="pos-end", end=s["end"]))
        n = len(s["pubs"])
        contiguous = [str(sc["top"] + 1 + j) for j in range(n)]
        if s["pubs"] != contiguous:
            return (f"positioned subscriber {i} (position {sc['top']}) was pushed {s['pubs']}: not the contiguous run "
                    f"{contiguous} (silent skip / duplicate)", dict(base, kind="not-contiguous", sub=s["kind"]))
        final = sc["top"] + n
        if s["end"] == "none":
            if s["pos"] != str(final):
                return (f"positioned subscriber {i} reports position {s['pos']} after being pushed up to {final}",
                        dict(base, kind="pos-mismatch", sub=s["kind"]))
            ahead = [x for x in stream if int(x) > final]
            if ahead:
                return (f"positioned subscriber {i} stays subscribed at position {final} although {ahead} were broadcast "
                        "to the channel (moved past / lost publication not reported)",
                        dict(base, kind="silent-loss", sub=s["kind"]))
            if med and ("M" in bc or any(e[1] == "insuff" for e in sc["ev"])):
                return (f"position loss was broadcast (broadcastInsufficientState) but positioned subscriber {i} is "
                        "still subscribed", dict(base, kind="loss-not-ended", sub=s["kind"]))
    return None


# ----------------------------------------------------------------------------- run
def run_parallel(ctx, binary, ops, workers=4):
    n = len(ops)
    if n == 0:
        return []
    chunk = (n + workers - 1) // workers
    chunks = [ops[i:i + chunk] for i in range(0, n, chunk)]
    with ThreadPoolExecutor(max_workers=workers) as ex:
        res = list(ex.map(lambda c: _run_chunk(ctx, binary, c), enumerate(chunks)))
    out = []
    for c, r in zip(chunks, res):
        r = r + ["<missing>"] * (len(c) - len(r))
        out += r[:len(c)]
    return out


def _run_chunk(ctx, binary, ic):
    from vlib.core import go_env
    i, lines = ic
    ops = os.path.join(ctx.tmp, f"c38ops{i}_{id(lines)}.txt")
    outp = ops + ".out"
    open(ops, "w").write("\n".join(lines) + "\n")
    e = go_env()
    e.update({"VERIF_OPS": ops, "VERIF_OUT": outp})
    try:
        subprocess.run([binary, "-test.run", "^TestVerifC38$", "-test.count=1", "-test.timeout=3000s"],
                       stdout=subprocess.PIPE, stderr=subprocess.STDOUT, env=e, timeout=3100, cwd=ctx.tmp)
    except subprocess.TimeoutExpired:
        pass
    return open(outp).read().splitlines() if os.path.exists(outp) else []


def shrink(ctx, binary, op, sig):
    sc = parse(op)

    def fails(c):
        o = fmt(c)
        out = ctx.go_run(binary, "TestVerifC38", [o])
        r = oracle(o, out[0]) if out else None
        return r is not None and r[1] == sig
    budget = 30
    changed = True
    while changed and budget > 0:
        changed = False
        for key in ("ev", "subs"):
            lst = sc[key]
            for i in range(len(lst) - 1, -1, -1):
                if key == "subs" and any(e[1] == "check" for e in sc["ev"]):
                    continue
                c = dict(sc)
                c[key] = lst[:i] + lst[i + 1:]
                budget -= 1
                if budget <= 0:
                    break
                if c[key] and fails(c):
                    sc, changed = c, True
                    break
            if changed or budget <= 0:
                break
    return fmt(sc)


def run(ctx):
    ctx.rule = ("scenarios = (medium option combination KeepLatestPublication × SharedPositionSync × queue × queue max "
                "size × broadcastDelay, 1-4 subscribers of kinds positioned / non-positioned / server-side positioned, "
                "timed bursts of publications with broker-level gaps, duplicates, epoch changes, explicit "
                "broadcastInsufficientState and periodic position checks with matching or mismatching stream top, "
                "settle-each or burst feeding); non-trivial = medium enabled and ≥ 2 publications; distinct = scenario line")
    ctx.assumptions = [
        "deliveries of one channel reach Node.HandlePublication one at a time (one PUB/SUB reader per channel)",
        "stream positions and offsets stay below 2^64-2 (the MaxUint64 sentinel is then always a gap)",
        "medium shutdown (last subscriber leaves, dissolver closes the medium and discards its queue) is not modelled",
        "delta / KeepLatestPublication payload selection is not modelled (only which publications are broadcast)",
    ]
    proofs_ok = ctx.lean_obligations()
    ctx.log("lean obligations done")
    binary = ctx.go_test_binary(".", HARNESS)
    if binary is None:
        ctx.violation("correspondence", "harness no longer builds against package centrifuge",
                      signature={"kind": "harness-build"}, replay={"log": getattr(ctx, "build_error", "")},
                      no_input=True)
        return
    # --- phase 1: publicationQueue itself (white box) against the ring model and a FIFO list
    if ctx.replay:
        rops = json.load(open(ctx.replay)).get("ops", [])
        qops = [o for o in rops if o.startswith("q ")]
    else:
        qops = ["q cap=2 ops=a,r,a,a,a,a,r,a,a,r,r,r,r,r,r", "q cap=2 ops=a,a,a,r,r,a,a,a,a,a,r,r,r,r,r,r,r,r",
                "q cap=2 ops=a,r,a,i,a,a,r,a,a,r,r,r,r,r"] + [gen_queue(ctx.rng) for _ in range(ctx.scale(400, 20000))]
    if qops:
        qimpl = ctx.go_run(binary, "TestVerifC38Queue", qops)
        qmodel = ctx.lean_run(qops) or []
        nq = 0
        for i, op in enumerate(qops):
            a = qimpl[i] if i < len(qimpl) else "<missing>"
            b = qmodel[i] if i < len(qmodel) else "<missing>"
            ctx.record(op, nontrivial=True)
            ctx.count("queue-walks")
            if a == "<missing>":
                ctx.count("harness-error")
                continue
            if any(int(t.split("/")[-2]) != int(u.split("/")[-2]) for t, u in zip(a.split(), a.split()[1:]) if "/" in t and "/" in u):
                ctx.count("queue-resizes")
            msg = oracle_queue(op, a)
            if msg:
                nq += 1
                if nq <= 2:
                    from vlib.core import ddmin
                    ol = op.split("ops=")[1].split(",")
                    head = op.split("ops=")[0]

                    def bad(sub):
                        o2 = head + "ops=" + ",".join(sub)
                        r = ctx.go_run(binary, "TestVerifC38Queue", [o2])
                        return bool(r) and oracle_queue(o2, r[0]) is not None
                    small = head + "ops=" + ",".join(ddmin(ol, bad))
                    sout = ctx.go_run(binary, "TestVerifC38Queue", [small])
                    ctx.violation("property", "publicationQueue: " + (oracle_queue(small, sout[0]) or msg),
                                  signature={"kind": "queue-fifo"}, replay={"ops": [small], "impl": sout, "original_op": op})
            elif a != b and qmodel:
                ctx.violation("correspondence", f"publicationQueue and the ring model differ: impl `{a[-80:]}` model `{b[-80:]}`",
                              signature={"kind": "diff-queue"}, replay={"ops": [op], "impl": [a], "model": [b]},
                              no_input=True)
        ctx.log("queue phase done")
    if ctx.replay:
        ops = [o for o in json.load(open(ctx.replay)).get("ops", []) if o.startswith("sc ")]
    else:
        corpus = [l.strip() for l in open("props/C38/corpus.ops") if l.strip() and not l.startswith("#")]
        ops = corpus + [fmt(gen(ctx.rng)) for _ in range(ctx.scale(700, 30000))]
    ctx.log("harness built")
    impl = run_parallel(ctx, binary, ops, workers=4)
    ctx.log("implementation run done")
    model = ctx.lean_run(ops)
    ctx.log("model run done")
    if model is None:
        proofs_ok = False
        model = []
    herr, ndet, ndiff = 0, 0, 0
    nviol = {}
    for i, op in enumerate(ops):
        out = impl[i] if i < len(impl) else "<missing>"
        sc = parse(op)
        med = medium_enabled(sc)
        npub = sum(1 for e in sc["ev"] if e[1] == "pub")
        ctx.record(op, nontrivial=med and npub >= 2)
        det = deterministic(sc)
        ctx.count("medium:" + ("on" if med else "off"))
        if sc.get("gate"):
            ctx.count("gated-writer")
        ctx.count(f"opts:q={sc['q']},delay={int(sc['delay'] > 0)},sps={sc['sps']},klp={sc['klp']}")
        ctx.count("mode:" + sc["mode"] + (":det" if det else ":racy"))
        if out.startswith("harness-error") or out == "<missing>":
            herr += 1
            ctx.count("harness-error")
            continue
        sub, bc, subs = parse_out(out) if out.startswith("sub=") else (None, None, [])
        if bc is not None:
            if "M" in bc:
                ctx.count("sentinel-broadcast")
            bcp = [x for x in bc if x != "M"]
            if len(bcp) < npub:
                ctx.count("medium-dropped-or-coalesced")
        for s in subs:
            ctx.count(f"sub:{s['kind']}:{s['end']}")
        r = oracle(op, out)
        if r:
            msg, sig = r
            key = json.dumps(sig, sort_keys=True)
            nviol[key] = nviol.get(key, 0) + 1
            if nviol[key] == 1:
                small = shrink(ctx, binary, op, sig)
                sout = ctx.go_run(binary, "TestVerifC38", [small])
                r2 = oracle(small, sout[0]) if sout else None
                if r2 is None:
                    small, sout, r2 = op, [out], r
                ctx.violation("property", r2[0], signature=r2[1],
                              replay={"ops": [small], "impl": sout, "original_op": op})
            continue
        if det:
            ndet += 1
            b = model[i] if i < len(model) else "<missing>"
            if b.startswith("racy"):
                ctx.count("model-says-racy")
                continue
            if sub != "ok" and b.startswith("sub=disc:3004"):
                ctx.count("subscribe-refused")           # invalid option combination: both sides refuse
                continue
            if out != b:
                ndiff += 1
                if ndiff <= 3:
                    ctx.violation("correspondence", f"model and implementation differ: impl `{out}` model `{b}`",
                                  signature={"kind": "diff", "q": sc["q"], "delay": int(sc["delay"] > 0)},
                                  replay={"ops": [op], "impl": [out], "model": [b],
                                          "correspondence": "Drivers/C38.lean vs channelMedium + writePublicationUpdatePosition"},
                                  no_input=not ctx.violations)
    ctx.extra["harness_errors_dropped"] = herr
    ctx.extra["disagreements"] = ndiff
    ctx.traces_validated = ndet
    if herr > len(ops) // 10:
        ctx.notes.append(f"{herr} scenarios dropped as harness errors")
    if not proofs_ok:
        ctx.proof_broken()
