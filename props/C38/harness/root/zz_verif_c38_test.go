//go:build verif

package centrifuge

// Verification harness for C38 (injected with `go test -overlay`; never part of the repo).
//
// A real Node whose Config.GetChannelMediumOptions returns the scenario's option combination
// (in-package, so the unexported enableQueue / queueMaxSize / broadcastDelay are reachable), a
// scripted Broker (history read answers the stream top), several real Clients subscribed to one
// channel (positioned client-side, non-positioned, positioned server-side), and publications fed
// through Node.HandlePublication — the entry that routes through the channel medium.  Everything
// runs in ONE testing/synctest bubble: the medium's writer goroutine and its broadcastDelay timer
// run on the virtual clock.
//
//   sc klp=0|1 sps=0|1 q=0|1 qmax=BYTES delay=MS subs=p,n,s,… top=N mode=each|burst
//      ev=T:pub:OFF:SIZE[:EP];T:insuff;T:check:I:TOP;… end=MS
//
// subs: p = client-side positioned+recoverable, n = non-positioned, s = server-side positioned.
// pub: publication with offset OFF, len(Data)=SIZE (≥2), stream epoch index EP (default 1).
// insuff: broadcastInsufficientState() on the channel's current medium (looked up in the node's map; no-op when
// the medium has been shut down);  check:I:TOP: the broker's stream top
// becomes TOP, virtual time passes beyond ClientChannelPositionCheckDelay, then subscriber I's real
// periodic tick (Client.updatePresence) runs — with SharedPositionSync it goes through
// channelMedium.CheckPosition.
// gate=1: every broadcast of the medium (observed in channelMedium.node) first takes a token, i.e. the writer
// goroutine is held inside the broadcast while more publications arrive (the queue's ring buffer wraps and
// grows / shrinks with the head off-centre); `T:rel:N` hands out N tokens; the gate is opened at the end.
// A second entry point, TestVerifC38Queue, drives publicationQueue itself:
//   q cap=N ops=a,a,i,r,…   (a = Add publication, i = Add insufficient-state marker, r = Remove)
//   → per op `a:cnt/cap/size` | `r:ID|I<ID>|-:cnt/cap/size`  (ids count from 1 in Add order, len(Data)=id%5+1)
// top:N sets the broker's stream top (a lost publication); tick:I runs subscriber I's periodic tick at T (its own
// gate `now - positionCheckTime > ClientChannelPositionCheckDelay` = 40 s and the medium's shared gate apply).
// Events with the same T form a burst; mode=each settles (synctest.Wait) after every event, mode=burst
// only after the whole burst.  Before a burst at T everything due at ≤ T has run.
// Output: `sub=ok|err:… bc=o,o,… s0=K:o+o+…:end …` where bc is the sequence handed by the medium to
// Node.handlePublication (M = the MaxUint64 sentinel), observed by a forwarding spy placed in
// channelMedium.node, and end = none | unsub:CODE | disc:CODE (first one seen).

import (
	"bufio"
	"context"
	"encoding/json"
	"fmt"
	"math"
	"os"
	"strconv"
	"strings"
	"sync"
	"testing"
	"testing/synctest"
	"time"

	"github.com/centrifugal/protocol"
)

type verifC38Broker struct {
	mu      sync.Mutex
	top     uint64
	handler BrokerEventHandler
}

func (b *verifC38Broker) RegisterBrokerEventHandler(h BrokerEventHandler) error {
	b.handler = h
	return nil
}
func (b *verifC38Broker) Subscribe(_ ...string) error   { return nil }
func (b *verifC38Broker) Unsubscribe(_ ...string) error { return nil }
func (b *verifC38Broker) Publish(_ string, _ []byte, _ PublishOptions) (PublishResult, error) {
	return PublishResult{}, nil
}
func (b *verifC38Broker) PublishJoin(_ string, _ *ClientInfo) error  { return nil }
func (b *verifC38Broker) PublishLeave(_ string, _ *ClientInfo) error { return nil }
func (b *verifC38Broker) RemoveHistory(_ string) error               { return nil }
func (b *verifC38Broker) History(_ string, _ HistoryOptions) ([]*Publication, StreamPosition, error) {
	b.mu.Lock()
	defer b.mu.Unlock()
	return nil, StreamPosition{Offset: b.top, Epoch: "ep1"}, nil
}

type verifC38Spy struct {
	n    *Node
	mu   sync.Mutex
	bc   []string
	gate chan struct{} // non-nil: every broadcast first takes one token (the writer is held inside the broadcast)
	once sync.Once
}

func (s *verifC38Spy) open() {
	if s != nil && s.gate != nil {
		s.once.Do(func() { close(s.gate) })
	}
}

func (s *verifC38Spy) handlePublication(ch string, sp StreamPosition, pub, prevPub *Publication, localPrevPub *Publication) error {
	if s.gate != nil {
		<-s.gate
	}
	s.mu.Lock()
	if pub == nil {
		// a zero-valued queue entry reached the broadcast
		s.bc = append(s.bc, "NIL")
		s.mu.Unlock()
		return nil
	}
	if pub.Offset == math.MaxUint64 {
		s.bc = append(s.bc, "M")
	} else {
		s.bc = append(s.bc, strconv.FormatUint(pub.Offset, 10))
	}
	s.mu.Unlock()
	return s.n.handlePublication(ch, sp, pub, prevPub, localPrevPub)
}
func (s *verifC38Spy) streamTop(ch string, historyMetaTTL time.Duration) (StreamPosition, error) {
	return s.n.streamTop(ch, historyMetaTTL)
}
func (s *verifC38Spy) mapStreamTop(ch string) (StreamPosition, error) { return s.n.mapStreamTop(ch) }

type verifC38Frame struct {
	ID        uint32 `json:"id"`
	Error     *struct{ Code uint32 `json:"code"` } `json:"error"`
	Subscribe *struct {
		Offset uint64 `json:"offset"`
	} `json:"subscribe"`
	Push *struct {
		Channel string `json:"channel"`
		Pub     *struct {
			Offset uint64 `json:"offset"`
		} `json:"pub"`
		Unsubscribe *struct{ Code uint32 `json:"code"` } `json:"unsubscribe"`
		Subscribe   *struct {
			Offset uint64 `json:"offset"`
		} `json:"subscribe"`
	} `json:"push"`
}

type verifC38Transport struct {
	mu      sync.Mutex
	pubs    []string
	end     string
	subOK   bool
	subErr  string
	other   int
}

func (t *verifC38Transport) Name() string                     { return "verif" }
func (t *verifC38Transport) AcceptProtocol() string           { return "" }
func (t *verifC38Transport) Protocol() ProtocolType           { return ProtocolTypeJSON }
func (t *verifC38Transport) ProtocolVersion() ProtocolVersion { return ProtocolVersion2 }
func (t *verifC38Transport) Unidirectional() bool             { return false }
func (t *verifC38Transport) Emulation() bool                  { return false }
func (t *verifC38Transport) DisabledPushFlags() uint64        { return 0 }
func (t *verifC38Transport) PingPongConfig() PingPongConfig {
	return PingPongConfig{PingInterval: -1, PongTimeout: -1}
}
func (t *verifC38Transport) Write(b []byte) error {
	t.mu.Lock()
	defer t.mu.Unlock()
	for _, l := range strings.Split(string(b), "\n") {
		l = strings.TrimSpace(l)
		if l == "" || l == "{}" {
			continue
		}
		var x verifC38Frame
		if json.Unmarshal([]byte(l), &x) != nil {
			t.other++
			continue
		}
		switch {
		case x.Push != nil && x.Push.Pub != nil:
			if x.Push.Pub.Offset == math.MaxUint64 {
				t.pubs = append(t.pubs, "M")
			} else {
				t.pubs = append(t.pubs, strconv.FormatUint(x.Push.Pub.Offset, 10))
			}
		case x.Push != nil && x.Push.Unsubscribe != nil:
			if t.end == "" {
				t.end = fmt.Sprintf("unsub:%d", x.Push.Unsubscribe.Code)
			}
		case x.Push != nil && x.Push.Subscribe != nil:
			t.subOK = true
		case x.Subscribe != nil:
			t.subOK = true
		case x.Error != nil:
			t.subErr = fmt.Sprintf("err:%d", x.Error.Code)
		}
	}
	return nil
}
func (t *verifC38Transport) WriteMany(bs ...[]byte) error {
	for _, b := range bs {
		_ = t.Write(b)
	}
	return nil
}
func (t *verifC38Transport) Close(d Disconnect) error {
	t.mu.Lock()
	if t.end == "" {
		t.end = fmt.Sprintf("disc:%d", d.Code)
	}
	t.mu.Unlock()
	return nil
}

func verifC38KV(line string) map[string]string {
	m := map[string]string{}
	for _, w := range strings.Fields(line) {
		if i := strings.IndexByte(w, '='); i > 0 {
			m[w[:i]] = w[i+1:]
		}
	}
	return m
}

func verifC38Data(size int) []byte {
	if size < 2 {
		size = 2
	}
	return []byte(`"` + strings.Repeat("x", size-2) + `"`)
}

const verifC38CheckDelay = 40 * time.Second

func verifC38Scenario(line string) (res string) {
	defer func() {
		if r := recover(); r != nil {
			res = fmt.Sprintf("PANIC %v", r)
		}
	}()
	kv := verifC38KV(line)
	// second-aligned scenario start: the position-check gates work on time.Now().Unix()
	if ns := time.Now().Nanosecond(); ns != 0 {
		time.Sleep(time.Second - time.Duration(ns))
	}
	atoi := func(k string) int {
		n, _ := strconv.Atoi(kv[k])
		return n
	}
	const ch = "ch"
	opts := ChannelMediumOptions{
		KeepLatestPublication: kv["klp"] == "1",
		SharedPositionSync:    kv["sps"] == "1",
		enableQueue:           kv["q"] == "1",
		queueMaxSize:          atoi("qmax"),
		broadcastDelay:        time.Duration(atoi("delay")) * time.Millisecond,
	}
	cfg := Config{
		LogLevel:                        LogLevelNone,
		ClientChannelPositionCheckDelay: verifC38CheckDelay,
		ClientPresenceUpdateInterval:    24 * time.Hour,
		ClientChannelPositionMaxTimeLag: 0,
	}
	if kv["nomedium"] != "1" {
		cfg.GetChannelMediumOptions = func(channel string) ChannelMediumOptions { return opts }
	}
	node, err := New(cfg)
	if err != nil {
		return "harness-error new-node"
	}
	top, _ := strconv.ParseUint(kv["top"], 10, 64)
	broker := &verifC38Broker{top: top}
	node.SetBroker(broker)
	node.OnConnecting(func(ctx context.Context, e ConnectEvent) (ConnectReply, error) {
		return ConnectReply{}, nil
	})
	node.OnConnect(func(c *Client) {
		c.OnSubscribe(func(e SubscribeEvent, cb SubscribeCallback) {
			positioned := strings.HasPrefix(c.UserID(), "p")
			cb(SubscribeReply{Options: SubscribeOptions{EnableRecovery: positioned, EnablePositioning: positioned}}, nil)
		})
	})
	if err := node.Run(); err != nil {
		return "harness-error run"
	}
	base := time.Now()
	kinds := []string{}
	if kv["subs"] != "" && kv["subs"] != "-" {
		kinds = strings.Split(kv["subs"], ",")
	}
	var clients []*Client
	var trs []*verifC38Transport
	var cancels []context.CancelFunc
	var spy *verifC38Spy
	defer func() {
		spy.open()
		for _, c := range clients {
			_ = c.close(DisconnectForceNoReconnect)
		}
		for _, c := range cancels {
			c()
		}
		_ = node.Shutdown(context.Background())
		time.Sleep(30 * time.Second)
		synctest.Wait()
	}()
	subRes := "ok"
	for i, k := range kinds {
		tr := &verifC38Transport{}
		ctx, cancel := context.WithCancel(context.Background())
		cancels = append(cancels, cancel)
		c, _, err := NewClient(SetCredentials(ctx, &Credentials{UserID: k + strconv.Itoa(i)}), node, tr)
		if err != nil {
			return "harness-error new-client"
		}
		clients = append(clients, c)
		trs = append(trs, tr)
		c.HandleCommand(&protocol.Command{Id: 1, Connect: &protocol.ConnectRequest{}}, 0)
		synctest.Wait()
		if k == "s" {
			if err := c.Subscribe(ch, WithPositioning(true), WithRecovery(true)); err != nil {
				subRes = "err:" + err.Error()
			}
		} else {
			c.HandleCommand(&protocol.Command{Id: 2, Subscribe: &protocol.SubscribeRequest{Channel: ch}}, 0)
		}
		synctest.Wait()
		tr.mu.Lock()
		if !tr.subOK {
			if tr.subErr != "" {
				subRes = tr.subErr
			} else if tr.end != "" {
				subRes = tr.end
			} else {
				subRes = "err:no-reply"
			}
		}
		tr.mu.Unlock()
	}
	node.mediumLock(ch).Lock()
	medium := node.mediumShard(ch)[ch]
	node.mediumLock(ch).Unlock()
	if medium != nil {
		spy = &verifC38Spy{n: node}
		if kv["gate"] == "1" {
			spy.gate = make(chan struct{}, 1<<20)
		}
		medium.mu.Lock()
		medium.node = spy
		medium.mu.Unlock()
	}
	synctest.Wait()

	evs := []string{}
	if kv["ev"] != "" && kv["ev"] != "-" {
		evs = strings.Split(kv["ev"], ";")
	}
	each := kv["mode"] != "burst"
	lastT := int64(-1)
	for _, ev := range evs {
		parts := strings.Split(ev, ":")
		if len(parts) < 2 {
			return "bad-op"
		}
		tms, err := strconv.ParseInt(parts[0], 10, 64)
		if err != nil {
			return "bad-op"
		}
		if tms != lastT {
			synctest.Wait()
			d := time.Until(base.Add(time.Duration(tms) * time.Millisecond))
			if d > 0 {
				time.Sleep(d)
			}
			synctest.Wait()
			lastT = tms
		}
		switch parts[1] {
		case "pub":
			if len(parts) < 4 {
				return "bad-op"
			}
			off, _ := strconv.ParseUint(parts[2], 10, 64)
			size, _ := strconv.Atoi(parts[3])
			ep := "ep1"
			if len(parts) > 4 {
				ep = "ep" + parts[4]
			}
			pub := &Publication{Offset: off, Data: verifC38Data(size)}
			_ = node.HandlePublication(ch, pub, StreamPosition{Offset: off, Epoch: ep}, false, nil)
		case "rel":
			// let N held / future broadcasts through
			if spy != nil && spy.gate != nil && len(parts) > 2 {
				n, _ := strconv.Atoi(parts[2])
				for i := 0; i < n; i++ {
					spy.gate <- struct{}{}
				}
			}
		case "insuff":
			// reach the medium the way the code does (Node.checkPosition): through the node's map
			node.mediumLock(ch).Lock()
			cur := node.mediumShard(ch)[ch]
			node.mediumLock(ch).Unlock()
			if cur == nil {
				break
			}
			cur.broadcastInsufficientState()
		case "top":
			// the broker's stream top moves (a publication that never reached this node)
			if len(parts) < 3 {
				return "bad-op"
			}
			t, _ := strconv.ParseUint(parts[2], 10, 64)
			broker.mu.Lock()
			broker.top = t
			broker.mu.Unlock()
		case "tick":
			// subscriber I's periodic tick, now
			if len(parts) < 3 {
				return "bad-op"
			}
			i, _ := strconv.Atoi(parts[2])
			if i < 0 || i >= len(clients) {
				return "bad-op"
			}
			clients[i].updatePresence()
		case "check":
			if len(parts) < 4 {
				return "bad-op"
			}
			i, _ := strconv.Atoi(parts[2])
			t, _ := strconv.ParseUint(parts[3], 10, 64)
			if i < 0 || i >= len(clients) {
				return "bad-op"
			}
			broker.mu.Lock()
			broker.top = t
			broker.mu.Unlock()
			time.Sleep(verifC38CheckDelay + 2*time.Second)
			synctest.Wait()
			clients[i].updatePresence()
			base = base.Add(verifC38CheckDelay + 2*time.Second) // event times stay relative to scenario time without the check pause
		default:
			return "bad-op"
		}
		if each {
			synctest.Wait()
		}
	}
	synctest.Wait()
	if spy != nil && spy.gate != nil {
		spy.open() // open the gate for good: everything queued drains
		synctest.Wait()
	}
	endMs, _ := strconv.ParseInt(kv["end"], 10, 64)
	if d := time.Until(base.Add(time.Duration(endMs) * time.Millisecond)); d > 0 {
		time.Sleep(d)
	}
	synctest.Wait()
	var sb strings.Builder
	sb.WriteString("sub=" + subRes)
	if spy != nil {
		spy.mu.Lock()
		sb.WriteString(" bc=" + strings.Join(spy.bc, ","))
		spy.mu.Unlock()
	} else {
		sb.WriteString(" bc=none")
	}
	for i, tr := range trs {
		tr.mu.Lock()
		end := tr.end
		if end == "" {
			end = "none"
		}
		pos := "-"
		clients[i].mu.RLock()
		if cc, ok := clients[i].channels[ch]; ok && channelHasFlag(cc.flags, flagPositioning) {
			pos = strconv.FormatUint(cc.streamPosition.Offset, 10)
		}
		clients[i].mu.RUnlock()
		fmt.Fprintf(&sb, " s%d=%s/%s/%s/%s", i, kinds[i], strings.Join(tr.pubs, "+"), end, pos)
		tr.mu.Unlock()
	}
	return sb.String()
}

func verifC38QueueLine(line string) (res string) {
	var out []string
	defer func() {
		if r := recover(); r != nil {
			res = strings.Join(append(out, fmt.Sprintf("PANIC(%v)", r)), " ")
		}
	}()
	kv := verifC38KV(line)
	capN, _ := strconv.Atoi(kv["cap"])
	q := newPublicationQueue(capN)
	st := func() string { return fmt.Sprintf("%d/%d/%d", q.Len(), len(q.nodes), q.Size()) }
	id := uint64(0)
	for _, op := range strings.Split(kv["ops"], ",") {
		switch op {
		case "a":
			id++
			q.Add(queuedPublication{Publication: queuedPub{pub: &Publication{Offset: id, Data: make([]byte, id%5+1)}}})
			out = append(out, "a:"+st())
		case "i":
			id++
			q.Add(queuedPublication{Publication: queuedPub{isInsufficientState: true, prevPub: &Publication{Offset: id}}})
			out = append(out, "a:"+st())
		case "r":
			it, ok := q.Remove()
			switch {
			case !ok:
				out = append(out, "r:-:"+st())
			case it.Publication.isInsufficientState && it.Publication.prevPub != nil:
				out = append(out, fmt.Sprintf("r:I%d:%s", it.Publication.prevPub.Offset, st()))
			case it.Publication.pub != nil:
				out = append(out, fmt.Sprintf("r:%d:%s", it.Publication.pub.Offset, st()))
			default:
				out = append(out, "r:ZERO:"+st())
			}
		default:
			return "bad-op"
		}
	}
	return strings.Join(out, " ")
}

func TestVerifC38Queue(t *testing.T) {
	in, err := os.Open(os.Getenv("VERIF_OPS"))
	if err != nil {
		t.Skip("no VERIF_OPS")
	}
	defer in.Close()
	out, err := os.Create(os.Getenv("VERIF_OUT"))
	if err != nil {
		t.Fatal(err)
	}
	defer out.Close()
	w := bufio.NewWriter(out)
	defer w.Flush()
	sc := bufio.NewScanner(in)
	sc.Buffer(make([]byte, 1<<20), 1<<26)
	for sc.Scan() {
		line := sc.Text()
		if line == "" || strings.HasPrefix(line, "#") {
			fmt.Fprintln(w, "#")
			continue
		}
		fmt.Fprintln(w, verifC38QueueLine(line))
	}
}

func TestVerifC38(t *testing.T) {
	in, err := os.Open(os.Getenv("VERIF_OPS"))
	if err != nil {
		t.Skip("no VERIF_OPS")
	}
	defer in.Close()
	out, err := os.Create(os.Getenv("VERIF_OUT"))
	if err != nil {
		t.Fatal(err)
	}
	defer out.Close()
	w := bufio.NewWriter(out)
	defer w.Flush()
	var lines []string
	sc := bufio.NewScanner(in)
	sc.Buffer(make([]byte, 1<<20), 1<<26)
	for sc.Scan() {
		lines = append(lines, sc.Text())
	}
	synctest.Test(t, func(t *testing.T) {
		for _, line := range lines {
			if line == "" || strings.HasPrefix(line, "#") {
				fmt.Fprintln(w, "#")
				continue
			}
			fmt.Fprintln(w, verifC38Scenario(line))
			w.Flush()
		}
	})
}
