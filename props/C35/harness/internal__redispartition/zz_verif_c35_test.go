//go:build verif

package redispartition

// Verification harness for C35 (injected with `go test -overlay`, never part of the repo).
//   sizes              -> sizes=16,32,...
//   tags <n>           -> n=<n> tags=<hex,hex,...> slots=<s,s,...>   (FindTags + TagSlot) | err
//   node <slot> <k>    -> node=<SlotToNode(slot,k)>
//   bal <n> <k>        -> min=<m> max=<M> zero=<nodes without partition>  (per-node counts via TagSlot+SlotToNode)
//   tagslot <hex>      -> slot=<TagSlot(string)>

import (
	"bufio"
	"encoding/hex"
	"fmt"
	"os"
	"strconv"
	"strings"
	"testing"
)

func verifC35Step(line string) (res string) {
	defer func() {
		if r := recover(); r != nil {
			res = "PANIC"
		}
	}()
	ws := strings.Fields(line)
	if len(ws) == 0 {
		return "bad-op"
	}
	switch ws[0] {
	case "sizes":
		var ss []string
		for _, n := range PrecomputedSizes() {
			ss = append(ss, strconv.Itoa(n))
		}
		return "sizes=" + strings.Join(ss, ",")
	case "tags":
		n, err := strconv.Atoi(ws[1])
		if err != nil {
			return "bad-op"
		}
		tags, err := FindTags(n)
		if err != nil {
			return "err"
		}
		hs := make([]string, len(tags))
		ss := make([]string, len(tags))
		for i, t := range tags {
			hs[i] = hex.EncodeToString([]byte(t))
			ss[i] = strconv.Itoa(TagSlot(t))
		}
		return fmt.Sprintf("n=%d tags=%s slots=%s", n, strings.Join(hs, ","), strings.Join(ss, ","))
	case "node":
		s, e1 := strconv.Atoi(ws[1])
		k, e2 := strconv.Atoi(ws[2])
		if e1 != nil || e2 != nil {
			return "bad-op"
		}
		return fmt.Sprintf("node=%d", SlotToNode(s, k))
	case "bal":
		n, e1 := strconv.Atoi(ws[1])
		k, e2 := strconv.Atoi(ws[2])
		if e1 != nil || e2 != nil {
			return "bad-op"
		}
		tags, err := FindTags(n)
		if err != nil {
			return "err"
		}
		counts := make([]int, k)
		for _, t := range tags {
			counts[SlotToNode(TagSlot(t), k)]++
		}
		mn, mx, zero := counts[0], counts[0], 0
		for _, c := range counts {
			if c < mn {
				mn = c
			}
			if c > mx {
				mx = c
			}
			if c == 0 {
				zero++
			}
		}
		return fmt.Sprintf("min=%d max=%d zero=%d", mn, mx, zero)
	case "tagslot":
		b := []byte{}
		if ws[1] != "-" {
			var err error
			b, err = hex.DecodeString(ws[1])
			if err != nil {
				return "bad-op"
			}
		}
		return fmt.Sprintf("slot=%d", TagSlot(string(b)))
	}
	return "bad-op"
}

func TestVerifC35(t *testing.T) {
	opsPath, outPath := os.Getenv("VERIF_OPS"), os.Getenv("VERIF_OUT")
	if opsPath == "" || outPath == "" {
		t.Skip("VERIF_OPS/VERIF_OUT not set")
	}
	in, err := os.Open(opsPath)
	if err != nil {
		t.Fatal(err)
	}
	defer in.Close()
	out, err := os.Create(outPath)
	if err != nil {
		t.Fatal(err)
	}
	defer out.Close()
	w := bufio.NewWriter(out)
	defer w.Flush()
	sc := bufio.NewScanner(in)
	sc.Buffer(make([]byte, 1<<20), 1<<26)
	for sc.Scan() {
		line := strings.TrimRight(sc.Text(), "\r\n")
		if line == "" || strings.HasPrefix(line, "#") {
			fmt.Fprintln(w, "#")
			continue
		}
		fmt.Fprintln(w, verifC35Step(line))
	}
}
