"""C35 — bundled sharded PUB/SUB partition tags are balanced and Redis-compatible.

Proof: lean/CentrifugeVerif/Props/C35.lean over Gen/PartitionTags<n>.lean (regenerated from precomputed.go on
every run by tables.py), Model/Partition.lean, Spec/RedisSlot.lean.
Tie: T1 (regeneration) + T2: FindTags / TagSlot / SlotToNode / PrecomputedSizes (in-package harness) against
the Lean driver on every bundled size, every cluster size k ≤ n, plus random SlotToNode / TagSlot inputs.
Oracle (Python, independent CRC16 via binascii.crc_hqx and the contiguous-assignment definition): tags map to
n distinct slots, are valid hash tags, and for every k ≤ n per-node counts differ by at most one — evaluated on
the implementation's own output for ALL sizes and ALL k (this is what covers sizes 1024–4096, whose balance is
not kernel-checked; the compiled Lean driver additionally runs the proved-sound checker on them).
"""
import binascii
import bisect
import json
import os
import sys

sys.path.insert(0, os.path.dirname(os.path.abspath(__file__)))
import tables  # noqa: E402
from vlib.core import REPO  # noqa: E402

HERE = os.path.dirname(os.path.abspath(__file__))
HARNESS = "props/C35/harness/internal__redispartition/zz_verif_c35_test.go"
TOTAL = 16384
KERNEL_BALANCED = [16, 32, 64, 128, 256, 512]


def redis_slot_of_tag(tag):
    """slot Redis computes for the key `{tag}` (hash-tag rule + CRC16-XMODEM)"""
    key = b"{" + tag + b"}"
    s = key.find(b"{")
    e = key.find(b"}", s + 1)
    if e >= 0 and e != s + 1:
        key = key[s + 1:e]
    return binascii.crc_hqx(key, 0) % TOTAL


def node_of(slot, k):
    """contiguous assignment: the first TOTAL % k nodes own TOTAL//k + 1 slots, the others TOTAL//k"""
    sn, r = divmod(TOTAL, k)
    start = 0
    # closed form (no loop): boundaries i*(sn+1) for i <= r, then r*(sn+1) + (i-r)*sn
    b = r * (sn + 1)
    if slot < b:
        return slot // (sn + 1)
    return r + (slot - b) // sn


def node_of_slow(slot, k):
    """the definition itself: walk the node ranges"""
    sn, r = divmod(TOTAL, k)
    start = 0
    for i in range(k):
        size = sn + 1 if i < r else sn
        if start <= slot < start + size:
            return i
        start += size
    return None


def counts_by_definition(sorted_slots, k):
    """per-node counts from the definition of the contiguous assignment: node i owns [start_i, start_{i+1}),
    sizes TOTAL//k + 1 for the first TOTAL % k nodes and TOTAL//k for the rest"""
    sn, r = divmod(TOTAL, k)
    counts, start, lo = [], 0, 0
    for i in range(k):
        start += sn + 1 if i < r else sn
        hi = bisect.bisect_left(sorted_slots, start)
        counts.append(hi - lo)
        lo = hi
    return counts


def regen(ctx):
    tabs = tables.parse_tables(REPO)
    for n, tags in tabs.items():
        ctx.write_gen(f"PartitionTags{n}.lean", tables.render_size(n, tags))
    ctx.write_gen("PartitionSizes.lean", tables.render_sizes(tabs))
    return tabs


def run(ctx):
    ctx.rule = ("every bundled size n × every cluster size 1..n (all of them, not sampled) through FindTags/TagSlot/SlotToNode; "
                "SlotToNode on random and boundary (slot, k) pairs; TagSlot on random byte strings; non-trivial = every case; "
                "distinct = distinct op line")
    ctx.assumptions = [
        "cluster nodes own contiguous slot ranges, the first 16384 mod k nodes one slot more (Redis' default even split; "
        "what SlotToNode documents)",
        "balance for sizes 1024, 2048, 4096 is NOT kernel-checked (tags_balanced_partial covers 16…512); it is checked on "
        "every run by the oracle on the Go output and by the compiled, proved-sound Lean checker",
    ]
    try:
        tabs = regen(ctx)
    except (tables.TranslateError, OSError) as e:
        ctx.violation("proof", f"precomputed.go / partitions.go can no longer be translated: {e}",
                      signature={"kind": "translator"}, replay={"error": str(e)}, no_input=True)
        return
    src_changed = None
    try:
        tables.check_go_functions(REPO)
    except tables.TranslateError as e:
        src_changed = str(e)      # reported at the end, after searching for a failing input
    proofs_ok = ctx.lean_obligations()
    binary = ctx.go_test_binary("internal/redispartition", [HARNESS])
    if binary is None:
        ctx.violation("correspondence", "harness no longer builds against internal/redispartition",
                      signature={"kind": "harness-build"}, replay={"log": getattr(ctx, "build_error", "")}, no_input=True)
        return
    rng = ctx.rng
    if ctx.replay:
        ops = json.load(open(ctx.replay)).get("ops", [])
    else:
        sizes = sorted(tabs)
        ops = ["sizes"] + [f"tags {n}" for n in sizes] + ["tags 17", "tags 0", "tags 8192"]
        for n in sizes:
            ops += [f"bal {n} {k}" for k in range(1, n + 1)]
        # SlotToNode: boundaries of every k plus random pairs
        for k in [1, 2, 3, 5, 7, 16, 17, 100, 255, 256, 257, 1000, 4095, 4096, 16383, 16384]:
            sn, r = divmod(TOTAL, k)
            bs = {0, TOTAL - 1, r * (sn + 1) - 1, r * (sn + 1), r * (sn + 1) + 1, sn, sn + 1, sn - 1}
            ops += [f"node {s} {k}" for s in sorted(x for x in bs if 0 <= x < TOTAL)]
        for _ in range(ctx.scale(3000, 200000)):
            k = rng.choice([rng.randint(1, 4096), rng.randint(1, 64), rng.randint(1, TOTAL)])
            ops.append(f"node {rng.randrange(TOTAL)} {k}")
        for _ in range(ctx.scale(1500, 50000)):
            ln = rng.choice([0, 1, 2, 3, 3, 4, 8, 20])
            bs = bytes(rng.choice(b"abcxyz0189{}.") if rng.random() < 0.7 else rng.randrange(256) for _ in range(ln))
            ops.append("tagslot " + (bs.hex() if bs else "-"))
    impl = ctx.go_run(binary, "TestVerifC35", ops)
    model = ctx.lean_run(ops)
    if model is None:
        proofs_ok = False
        model = []
    ctx.traces_validated = len(ops)
    nviol = ndiff = 0
    go_tables = {}

    def viol(msg, sig, op, a):
        nonlocal nviol
        nviol += 1
        ctx.violation("property", msg, signature=sig, replay={"ops": [op], "impl": [a[:2000]]})

    for i, op in enumerate(ops):
        a = impl[i] if i < len(impl) else "<missing>"
        b = model[i] if i < len(model) else "<missing>"
        w = op.split()
        ctx.record(op, nontrivial=True)
        ctx.count("op:" + w[0])
        if a in ("PANIC", "<missing>") and w[0] != "node":
            viol("implementation panicked / produced no output", {"kind": "panic", "op": w[0]}, op, a)
        if w[0] == "sizes":
            got = [int(x) for x in a.split("=")[1].split(",")]
            if got != sorted(tabs):
                viol(f"PrecomputedSizes() = {got}, tables in precomputed.go: {sorted(tabs)}", {"kind": "sizes"}, op, a)
        elif w[0] == "tags" and a.startswith("n="):
            n = int(w[1])
            kv = dict(x.split("=", 1) for x in a.split())
            tags = [bytes.fromhex(h) for h in kv["tags"].split(",")]
            slots = [int(x) for x in kv["slots"].split(",")]
            go_tables[n] = (tags, slots, sorted(redis_slot_of_tag(t) for t in tags))
            if len(tags) != n:
                viol(f"FindTags({n}) returned {len(tags)} tags", {"kind": "count", "n": n}, op, a)
            real = [redis_slot_of_tag(t) for t in tags]
            if real != slots:
                j = next(j for j in range(len(tags)) if real[j] != slots[j])
                viol(f"TagSlot({tags[j]!r}) = {slots[j]} but Redis hashes {{tag}} to {real[j]}", {"kind": "tagslot", "n": n}, op, a)
            if len(set(real)) != len(real):
                viol(f"size {n}: tags do not map to distinct slots", {"kind": "distinct", "n": n}, op, a)
            bad = [t for t in tags if not t or any(c in b"{}" for c in t)]
            if bad:
                viol(f"size {n}: tag {bad[0]!r} is not usable as a Redis hash tag", {"kind": "hashtag", "n": n}, op, a)
            ctx.count("tables-checked")
        elif w[0] == "bal" and a.startswith("min="):
            n, k = int(w[1]), int(w[2])
            kv = {x.split("=")[0]: int(x.split("=")[1]) for x in a.split()}
            # recompute the counts independently from the Go table (Redis slots, definition of the assignment)
            if n in go_tables:
                counts = counts_by_definition(go_tables[n][2], k)
                if (min(counts), max(counts)) != (kv["min"], kv["max"]):
                    viol(f"n={n} k={k}: per-node counts via SlotToNode/TagSlot ({kv['min']}..{kv['max']}) differ from the "
                         f"definition ({min(counts)}..{max(counts)})", {"kind": "counts", "n": n}, op, a)
                if max(counts) - min(counts) > 1:
                    viol(f"n={n} k={k}: per-node partition counts differ by {max(counts) - min(counts)} (min {min(counts)}, max {max(counts)})",
                         {"kind": "unbalanced", "n": n, "k": k}, op, a)
            ctx.count("balance-kernel-proved" if n in KERNEL_BALANCED else "balance-oracle-only")
        elif w[0] == "node" and a.startswith("node="):
            s, k = int(w[1]), int(w[2])
            want = node_of_slow(s, k) if k <= 4096 else node_of(s, k)
            if int(a.split("=")[1]) != want:
                viol(f"SlotToNode({s},{k}) = {a}, contiguous assignment gives {want}", {"kind": "slotToNode"}, op, a)
        elif w[0] == "tagslot" and a.startswith("slot="):
            bs = b"" if w[1] == "-" else bytes.fromhex(w[1])
            if int(a.split("=")[1]) != binascii.crc_hqx(bs, 0) % TOTAL:
                viol(f"TagSlot({bs!r}) = {a}, CRC16-XMODEM mod 16384 = {binascii.crc_hqx(bs, 0) % TOTAL}", {"kind": "crc"}, op, a)
        # correspondence (the tagslot line of the model carries extra fields)
        b_cmp = b.split()[0] if w[0] == "tagslot" and b.startswith("slot=") else b
        if a != b_cmp:
            ndiff += 1
            if ndiff <= 3 and model:
                ctx.violation("correspondence", f"model and implementation differ on `{op}`: impl `{a[:200]}` model `{b[:200]}`",
                              signature={"kind": "diff", "op": w[0]}, replay={"ops": [op], "impl": [a[:2000]], "model": [b[:2000]]},
                              no_input=(nviol == 0))
        if w[0] == "tagslot" and b.startswith("slot="):
            kv = dict(x.split("=") for x in b.split())
            if kv.get("wf") == "1" and kv["slot"] != kv["redis"]:
                ctx.violation("correspondence", f"model: tagSlot ≠ Spec slot on well-formed tag `{op}`", signature={"kind": "spec-tagslot"},
                              replay={"ops": [op], "model": [b]}, no_input=True)
    # the proved-sound checker, compiled, on the specification slots: all sizes, all k
    if not ctx.replay:
        sizes = sorted(tabs)
        cops = [f"spec {n}" for n in sizes] + [f"chkall {n}" for n in sizes]
        cout = ctx.lean_run(cops) or []
        res = dict(zip(cops, cout))
        ctx.extra["lean_checker_all_k"] = res
        for op, line in res.items():
            if not line.endswith("=1"):
                ctx.violation("correspondence", f"compiled Lean checker rejects `{op}`: {line}", signature={"kind": "lean-checker", "op": op},
                              replay={"ops": [op], "model": [line]}, no_input=(nviol == 0))
    ctx.extra["disagreements"] = ndiff
    ctx.extra["balance_kernel_proved_sizes"] = KERNEL_BALANCED
    if src_changed:
        ctx.violation("proof", "the modelled Go functions changed textually: " + src_changed, signature={"kind": "source-shape"},
                      replay={"error": src_changed}, no_input=(nviol == 0))
    if not proofs_ok:
        ctx.proof_broken()
