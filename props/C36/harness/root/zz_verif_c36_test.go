//go:build verif

package centrifuge

// Verification harness for C36 (injected with `go test -overlay`; never part of the repo).
//
// A real Node and a real Client inside ONE testing/synctest bubble: the client's single multiplexed
// timer (time.AfterFunc, or a harness TimerScheduler when sched=1) runs on the virtual clock, so
// every ping, presence tick, disconnect and unsubscribe push gets an exact virtual timestamp.
// One scenario per op line, one output line per scenario:
//
//   sc [uni=1] [och=0] sched=0|1 ping=MS pong=MS stale=MS ecd=MS escd=MS pres=MS csr=0|1 rh=0|1 srh=0|1
//      rhr=v,v,… srhr=v,v,… pp=d,d,-,… ppd=d|- ev=T:kind[:arg…];… end=MS
//
// ping/pong: transport PingPongConfig in ms (-1 disabled).  stale/ecd/escd/pres: ClientStaleCloseDelay,
// ClientExpiredCloseDelay, ClientExpiredSubCloseDelay, ClientPresenceUpdateInterval in ms (stale=-1: off).
// csr: ConnectReply.ClientSideRefresh.  rh / srh: a RefreshHandler / SubRefreshHandler is registered.
// rhr / srhr: scripted answers of the server-side (timer driven) refresh / sub refresh handler calls:
// N (ExpireAt = now+N s; 0 = ExpireAt 0), x (Expired), e (error).  When exhausted: x.
// uni=1: the transport is unidirectional (connect through Client.Connect; such a client never sends pongs and
// must never be closed NoPong).  och=0: the node has NO ConnectingHandler, credentials come from the context
// (then there is no client-side refresh).
// pp / ppd: pong policy — the k-th ping frame the transport sees is answered by a pong command pp[k] ms later
// ("-": withheld); pings beyond the list use ppd.  Every pong command sent is recorded as `pin`.
// Events (T = ms since the scenario's second-aligned base time, non-decreasing):
//   new                      NewClient
//   connect:EXP              connect command; credentials ExpireAt = now+EXP s (0: none)
//   connectfail              connect command that fails AFTER authentication (a connect-time server-side
//                            subscription with an expired ExpireAt): error reply, connection marked unusable
//   pong                     empty command (pong)
//   refresh:V                client refresh command, handler answers ExpireAt = now+V s | 0 | x
//   srefresh:V               Client.Refresh(WithRefreshExpireAt(now+V)) | ExpireAt 0 | x = WithRefreshExpired
//   sub:CH:V:CSR             subscribe command (CH a small number); Options.ExpireAt = now+V s (0: none), ClientSideRefresh=CSR
//   subrefresh:CH:V          client sub refresh command, handler answers ExpireAt = now+V s | 0 | x
// Before an event at time T all timers due at ≤ T have run (sleep, then synctest.Wait).
// Output: `jp=NS jr=NS tl=NS:event,… st=…` — jp/jr are the first-ping / first-presence jitters the
// client drew (read from the client after connect), tl the timeline in ns since base, st the
// final state dump; after every event a state dump is also put into the timeline as `s/…`.

import (
	"bufio"
	"context"
	"encoding/json"
	"errors"
	"fmt"
	"hash/fnv"
	"os"
	"sort"
	"strconv"
	"strings"
	"sync"
	"testing"
	"testing/synctest"
	"time"

	"github.com/centrifugal/centrifuge/internal/saferand"
	"github.com/centrifugal/protocol"
)

type verifC36Rec struct {
	mu     sync.Mutex
	base   time.Time
	events []string
}

func (r *verifC36Rec) add(ev string) {
	r.mu.Lock()
	r.events = append(r.events, fmt.Sprintf("%d:%s", time.Since(r.base).Nanoseconds(), ev))
	r.mu.Unlock()
}

type verifC36Frame struct {
	ID      uint32 `json:"id"`
	Error   *struct{ Code uint32 `json:"code"` } `json:"error"`
	Connect *struct {
		Expires bool   `json:"expires"`
		TTL     uint32 `json:"ttl"`
	} `json:"connect"`
	Subscribe *struct {
		Expires bool   `json:"expires"`
		TTL     uint32 `json:"ttl"`
	} `json:"subscribe"`
	Refresh *struct {
		Expires bool   `json:"expires"`
		TTL     uint32 `json:"ttl"`
	} `json:"refresh"`
	SubRefresh *struct {
		Expires bool   `json:"expires"`
		TTL     uint32 `json:"ttl"`
	} `json:"sub_refresh"`
	// unidirectional transports receive bare pushes
	Channel     string                        `json:"channel"`
	Unsubscribe *struct{ Code uint32 `json:"code"` } `json:"unsubscribe"`
	Disconnect  *struct{ Code uint32 `json:"code"` } `json:"disconnect"`
	Push        *struct {
		Channel     string `json:"channel"`
		Unsubscribe *struct{ Code uint32 `json:"code"` } `json:"unsubscribe"`
		Refresh     *struct {
			Expires bool   `json:"expires"`
			TTL     uint32 `json:"ttl"`
		} `json:"refresh"`
		Disconnect *struct{ Code uint32 `json:"code"` } `json:"disconnect"`
	} `json:"push"`
}

func verifC36B(b bool) int {
	if b {
		return 1
	}
	return 0
}

type verifC36Transport struct {
	rec        *verifC36Rec
	ping, pong time.Duration
	onPing     func()
	uni        bool
}

func (t *verifC36Transport) Name() string                     { return "verif" }
func (t *verifC36Transport) AcceptProtocol() string           { return "" }
func (t *verifC36Transport) Protocol() ProtocolType           { return ProtocolTypeJSON }
func (t *verifC36Transport) ProtocolVersion() ProtocolVersion { return ProtocolVersion2 }
func (t *verifC36Transport) Unidirectional() bool             { return t.uni }
func (t *verifC36Transport) Emulation() bool                  { return false }
func (t *verifC36Transport) DisabledPushFlags() uint64        { return 0 }
func (t *verifC36Transport) PingPongConfig() PingPongConfig {
	return PingPongConfig{PingInterval: t.ping, PongTimeout: t.pong}
}
func (t *verifC36Transport) frame(l string) {
	l = strings.TrimSpace(l)
	if l == "" {
		return
	}
	if l == "{}" {
		t.rec.add("ping")
		if t.onPing != nil {
			t.onPing()
		}
		return
	}
	var x verifC36Frame
	if json.Unmarshal([]byte(l), &x) != nil {
		t.rec.add("frame?")
		return
	}
	if t.uni {
		switch {
		case x.Connect != nil:
			t.rec.add(fmt.Sprintf("connected:%d:%d", verifC36B(x.Connect.Expires), x.Connect.TTL))
		case x.Unsubscribe != nil:
			t.rec.add(fmt.Sprintf("unsub:%s:%d", x.Channel, x.Unsubscribe.Code))
		case x.Refresh != nil:
			t.rec.add(fmt.Sprintf("prefresh:%d:%d", verifC36B(x.Refresh.Expires), x.Refresh.TTL))
		case x.Disconnect != nil:
			// the same code is reported through Close
		default:
			t.rec.add("frame?")
		}
		return
	}
	switch {
	case x.Error != nil:
		t.rec.add(fmt.Sprintf("err:%d", x.Error.Code))
	case x.Connect != nil:
		t.rec.add(fmt.Sprintf("connected:%d:%d", verifC36B(x.Connect.Expires), x.Connect.TTL))
	case x.Subscribe != nil:
		t.rec.add(fmt.Sprintf("subscribed:%d:%d", verifC36B(x.Subscribe.Expires), x.Subscribe.TTL))
	case x.Refresh != nil:
		t.rec.add(fmt.Sprintf("rrefresh:%d:%d", verifC36B(x.Refresh.Expires), x.Refresh.TTL))
	case x.SubRefresh != nil:
		t.rec.add(fmt.Sprintf("rsubrefresh:%d:%d", verifC36B(x.SubRefresh.Expires), x.SubRefresh.TTL))
	case x.Push != nil && x.Push.Unsubscribe != nil:
		t.rec.add(fmt.Sprintf("unsub:%s:%d", x.Push.Channel, x.Push.Unsubscribe.Code))
	case x.Push != nil && x.Push.Refresh != nil:
		t.rec.add(fmt.Sprintf("prefresh:%d:%d", verifC36B(x.Push.Refresh.Expires), x.Push.Refresh.TTL))
	case x.Push != nil && x.Push.Disconnect != nil:
		// the same code is reported through Close
	case x.ID != 0:
		// reply without a typed result (refresh / sub refresh results with all-default fields)
		t.rec.add(fmt.Sprintf("reply:%d", x.ID))
	default:
		t.rec.add("frame?")
	}
}
func (t *verifC36Transport) Write(b []byte) error {
	for _, l := range strings.Split(string(b), "\n") {
		t.frame(l)
	}
	return nil
}
func (t *verifC36Transport) WriteMany(bs ...[]byte) error {
	for _, b := range bs {
		_ = t.Write(b)
	}
	return nil
}
func (t *verifC36Transport) Close(d Disconnect) error {
	t.rec.add(fmt.Sprintf("disc:%d", d.Code))
	return nil
}

// harness TimerScheduler: time.AfterFunc on the bubble's clock, remembering what is armed.
type verifC36Sched struct {
	mu     sync.Mutex
	timers []*verifC36Timer
}
type verifC36Timer struct {
	s        *verifC36Sched
	deadline time.Time
	t        *time.Timer
	state    int // 0 armed, 1 fired, 2 cancelled
}

func (s *verifC36Sched) ScheduleTimer(d time.Duration, cb func()) TimerCanceler {
	e := &verifC36Timer{s: s, deadline: time.Now().Add(d)}
	s.mu.Lock()
	s.timers = append(s.timers, e)
	s.mu.Unlock()
	e.t = time.AfterFunc(d, func() {
		s.mu.Lock()
		if e.state != 0 {
			s.mu.Unlock()
			return
		}
		e.state = 1
		s.mu.Unlock()
		cb()
	})
	return e
}
func (e *verifC36Timer) Cancel() {
	e.s.mu.Lock()
	if e.state == 0 {
		e.state = 2
	}
	e.s.mu.Unlock()
	e.t.Stop()
}
func (s *verifC36Sched) armed() []time.Time {
	s.mu.Lock()
	defer s.mu.Unlock()
	var out []time.Time
	for _, e := range s.timers {
		if e.state == 0 {
			out = append(out, e.deadline)
		}
	}
	return out
}

func verifC36KV(line string) map[string]string {
	m := map[string]string{}
	for _, w := range strings.Fields(line) {
		if i := strings.IndexByte(w, '='); i > 0 {
			m[w[:i]] = w[i+1:]
		}
	}
	return m
}

func verifC36Ms(s string) time.Duration {
	n, _ := strconv.ParseInt(s, 10, 64)
	return time.Duration(n) * time.Millisecond
}

type verifC36Script struct {
	mu   sync.Mutex
	vals []string
}

func (s *verifC36Script) next() string {
	s.mu.Lock()
	defer s.mu.Unlock()
	if len(s.vals) == 0 {
		return "x"
	}
	v := s.vals[0]
	s.vals = s.vals[1:]
	return v
}

func verifC36Script0(s string) *verifC36Script {
	sc := &verifC36Script{}
	if s != "" && s != "-" {
		sc.vals = strings.Split(s, ",")
	}
	return sc
}

// answer of a scripted refresh handler: (expireAt, expired, err)
func verifC36Answer(v string) (int64, bool, error) {
	switch v {
	case "x":
		return 0, true, nil
	case "e":
		return 0, false, errors.New("verif refresh failure")
	}
	n, err := strconv.ParseInt(v, 10, 64)
	if err != nil {
		return 0, true, nil
	}
	if n == 0 {
		return 0, false, nil
	}
	return time.Now().Unix() + n, false, nil
}

func verifC36Scenario(line string) (res string) {
	defer func() {
		if r := recover(); r != nil {
			res = fmt.Sprintf("PANIC %v", r)
		}
	}()
	kv := verifC36KV(line)
	// the first-ping / first-presence jitters come from the package-level randSource: seed it from the
	// scenario line so that a replay draws the same jitters
	hsh := fnv.New64a()
	_, _ = hsh.Write([]byte(line))
	randSource = saferand.New(int64(hsh.Sum64() >> 1))
	// second-aligned base
	now := time.Now()
	if ns := now.Nanosecond(); ns != 0 {
		time.Sleep(time.Second - time.Duration(ns))
	}
	rec := &verifC36Rec{base: time.Now()}
	cfg := Config{
		LogLevel:                     LogLevelNone,
		ClientStaleCloseDelay:        verifC36Ms(kv["stale"]),
		ClientExpiredCloseDelay:      verifC36Ms(kv["ecd"]),
		ClientExpiredSubCloseDelay:   verifC36Ms(kv["escd"]),
		ClientPresenceUpdateInterval: verifC36Ms(kv["pres"]),
	}
	var sched *verifC36Sched
	if kv["sched"] == "1" {
		sched = &verifC36Sched{}
		cfg.ClientTimerScheduler = sched
	}
	node, err := New(cfg)
	if err != nil {
		return "harness-error new-node"
	}
	csr := kv["csr"] == "1"
	rhr := verifC36Script0(kv["rhr"])
	srhr := verifC36Script0(kv["srhr"])
	var connectExp int64
	var connectFail bool
	var subExp int64
	var subCSR bool
	// och=0: no ConnectingHandler at all, credentials come from the context (authenticating middleware)
	if kv["och"] != "0" {
		node.OnConnecting(func(ctx context.Context, e ConnectEvent) (ConnectReply, error) {
			rep := ConnectReply{Credentials: &Credentials{UserID: "u", ExpireAt: connectExp}, ClientSideRefresh: csr}
			if connectFail {
				// the connect fails AFTER authentication: a connect-time server-side subscription whose
				// expiration lies in the past is refused with ErrorExpired
				rep.Subscriptions = map[string]SubscribeOptions{"srv": {ExpireAt: time.Now().Unix() - 10}}
			}
			return rep, nil
		})
	}
	node.OnConnect(func(c *Client) {
		c.OnAlive(func() { rec.add("alive") })
		c.OnSubscribe(func(e SubscribeEvent, cb SubscribeCallback) {
			cb(SubscribeReply{Options: SubscribeOptions{ExpireAt: subExp}, ClientSideRefresh: subCSR}, nil)
		})
		if kv["rh"] == "1" {
			c.OnRefresh(func(e RefreshEvent, cb RefreshCallback) {
				v := ""
				if e.ClientSideRefresh {
					v = strings.TrimPrefix(e.Token, "t")
				} else {
					v = rhr.next()
					rec.add("rh:" + v)
				}
				at, expired, err := verifC36Answer(v)
				cb(RefreshReply{ExpireAt: at, Expired: expired}, err)
			})
		}
		if kv["srh"] == "1" {
			c.OnSubRefresh(func(e SubRefreshEvent, cb SubRefreshCallback) {
				v := ""
				if e.ClientSideRefresh {
					v = strings.TrimPrefix(e.Token, "t")
				} else {
					v = srhr.next()
					rec.add("srh:" + e.Channel + ":" + v)
				}
				at, expired, err := verifC36Answer(v)
				cb(SubRefreshReply{ExpireAt: at, Expired: expired}, err)
			})
		}
	})
	if err := node.Run(); err != nil {
		return "harness-error run"
	}
	tr := &verifC36Transport{rec: rec, ping: verifC36Ms(kv["ping"]), pong: verifC36Ms(kv["pong"]), uni: kv["uni"] == "1"}
	ctx, cancel := context.WithCancel(context.Background())
	var client *Client
	defer func() {
		cancel()
		if client != nil {
			_ = client.close(DisconnectForceNoReconnect)
		}
		_ = node.Shutdown(context.Background())
		time.Sleep(30 * time.Second)
		synctest.Wait()
	}()

	rel := func(ns int64) string {
		if ns == 0 {
			return "0"
		}
		return strconv.FormatInt(ns-rec.base.UnixNano(), 10)
	}
	dump := func() string {
		if client == nil {
			return "none"
		}
		client.mu.RLock()
		st := client.status
		top := client.timerOp
		ne, npr, npi, npo := client.nextExpire, client.nextPresence, client.nextPing, client.nextPong
		exp := client.exp
		var subs []string
		for ch, cc := range client.channels {
			if channelHasFlag(cc.flags, flagSubscribed) {
				e := "0"
				if cc.expireAt != 0 {
					e = strconv.FormatInt(cc.expireAt-rec.base.Unix(), 10)
				}
				subs = append(subs, ch+"="+e)
			}
		}
		client.mu.RUnlock()
		sort.Strings(subs)
		e := "0"
		if exp != 0 {
			e = strconv.FormatInt(exp-rec.base.Unix(), 10)
		}
		arm := "?"
		if sched != nil {
			a := sched.armed()
			switch len(a) {
			case 0:
				arm = "-"
			case 1:
				arm = strconv.FormatInt(a[0].UnixNano()-rec.base.UnixNano(), 10)
			default:
				arm = "many"
			}
		}
		if st == statusClosed {
			return "closed"
		}
		tops := strconv.Itoa(int(top))
		if st == statusConnecting {
			tops = "-"
		}
		return fmt.Sprintf("%d/%s/%s/%s/%s/%s/%s/%s/%s", st, tops, rel(ne), rel(npr), rel(npi), rel(npo), e, arm, strings.Join(subs, "+"))
	}

	// pong policy: the k-th ping is answered after pp[k] ms ("-" = withheld); beyond the list: ppd
	var pp []string
	if kv["pp"] != "" && kv["pp"] != "-" {
		pp = strings.Split(kv["pp"], ",")
	}
	ppd := kv["ppd"]
	var pingMu sync.Mutex
	nping := 0
	tr.onPing = func() {
		pingMu.Lock()
		k := nping
		nping++
		pingMu.Unlock()
		v := ppd
		if k < len(pp) {
			v = pp[k]
		}
		if v == "" || v == "-" {
			return
		}
		ms, err := strconv.ParseInt(v, 10, 64)
		if err != nil {
			return
		}
		time.AfterFunc(time.Duration(ms)*time.Millisecond, func() {
			rec.add("pin")
			if client != nil {
				client.HandleCommand(&protocol.Command{}, 0)
			}
		})
	}
	jp, jr := int64(-1), int64(-1)
	cmdID := uint32(0)
	evs := []string{}
	if kv["ev"] != "" && kv["ev"] != "-" {
		evs = strings.Split(kv["ev"], ";")
	}
	waitUntil := func(ms int64) {
		d := time.Until(rec.base.Add(time.Duration(ms) * time.Millisecond))
		if d > 0 {
			time.Sleep(d)
		}
		synctest.Wait()
	}
	for _, ev := range evs {
		parts := strings.Split(ev, ":")
		if len(parts) < 2 {
			return "bad-op"
		}
		tms, err := strconv.ParseInt(parts[0], 10, 64)
		if err != nil {
			return "bad-op"
		}
		waitUntil(tms)
		arg := func(i int) string {
			if i < len(parts) {
				return parts[i]
			}
			return ""
		}
		switch parts[1] {
		case "new":
			if client != nil {
				return "bad-op"
			}
			cctx := ctx
			if kv["och"] == "0" {
				// ExpireAt of the context credentials = (second of the first connect event) + its EXP
				var at int64
				for _, e2 := range evs {
					p2 := strings.Split(e2, ":")
					if len(p2) >= 3 && p2[1] == "connect" {
						tm, _ := strconv.ParseInt(p2[0], 10, 64)
						n, _ := strconv.ParseInt(p2[2], 10, 64)
						if n != 0 {
							at = rec.base.Unix() + tm/1000 + n
						}
						break
					}
				}
				cctx = SetCredentials(ctx, &Credentials{UserID: "u", ExpireAt: at})
			}
			c, _, err := NewClient(cctx, node, tr)
			if err != nil {
				return "harness-error new-client"
			}
			client = c
		case "connectfail":
			if client == nil || kv["och"] == "0" {
				return "bad-op"
			}
			connectExp, connectFail = 0, true
			cmdID++
			if tr.uni {
				client.Connect(ConnectRequest{})
			} else {
				client.HandleCommand(&protocol.Command{Id: cmdID, Connect: &protocol.ConnectRequest{}}, 0)
			}
			connectFail = false
		case "connect":
			if client == nil {
				return "bad-op"
			}
			n, _ := strconv.ParseInt(arg(2), 10, 64)
			connectExp = 0
			if n != 0 {
				connectExp = time.Now().Unix() + n
			}
			cmdID++
			wasAuth := client.authenticated
			if tr.uni {
				client.Connect(ConnectRequest{})
			} else {
				client.HandleCommand(&protocol.Command{Id: cmdID, Connect: &protocol.ConnectRequest{}}, 0)
			}
			if !wasAuth {
				client.mu.RLock()
				if client.authenticated && client.status == statusConnected {
					if client.nextPing != 0 {
						jp = client.nextPing - time.Now().UnixNano()
					}
					jr = client.nextPresence - time.Now().UnixNano()
				}
				client.mu.RUnlock()
			}
		case "pong":
			if client == nil {
				return "bad-op"
			}
			rec.add("pin")
			client.HandleCommand(&protocol.Command{}, 0)
		case "refresh":
			if client == nil {
				return "bad-op"
			}
			cmdID++
			client.HandleCommand(&protocol.Command{Id: cmdID, Refresh: &protocol.RefreshRequest{Token: "t" + arg(2)}}, 0)
		case "srefresh":
			if client == nil {
				return "bad-op"
			}
			v := arg(2)
			if v == "x" {
				_ = client.Refresh(WithRefreshExpired(true))
			} else {
				n, _ := strconv.ParseInt(v, 10, 64)
				at := int64(0)
				if n != 0 {
					at = time.Now().Unix() + n
				}
				_ = client.Refresh(WithRefreshExpireAt(at))
			}
		case "sub":
			if client == nil {
				return "bad-op"
			}
			n, _ := strconv.ParseInt(arg(3), 10, 64)
			subExp = 0
			if n != 0 {
				subExp = time.Now().Unix() + n
			}
			subCSR = arg(4) == "1"
			cmdID++
			client.HandleCommand(&protocol.Command{Id: cmdID, Subscribe: &protocol.SubscribeRequest{Channel: arg(2)}}, 0)
		case "subrefresh":
			if client == nil {
				return "bad-op"
			}
			cmdID++
			client.HandleCommand(&protocol.Command{Id: cmdID, SubRefresh: &protocol.SubRefreshRequest{Channel: arg(2), Token: "t" + arg(3)}}, 0)
		default:
			return "bad-op"
		}
		synctest.Wait()
		rec.add("s/" + dump())
	}
	endMs, _ := strconv.ParseInt(kv["end"], 10, 64)
	waitUntil(endMs)
	final := dump()
	rec.mu.Lock()
	tl := strings.Join(rec.events, ",")
	rec.mu.Unlock()
	return fmt.Sprintf("jp=%d jr=%d tl=%s st=%s", jp, jr, tl, final)
}

func TestVerifC36(t *testing.T) {
	in, err := os.Open(os.Getenv("VERIF_OPS"))
	if err != nil {
		t.Skip("no VERIF_OPS")
	}
	defer in.Close()
	out, err := os.Create(os.Getenv("VERIF_OUT"))
	if err != nil {
		t.Fatal(err)
	}
	defer out.Close()
	w := bufio.NewWriter(out)
	defer w.Flush()
	var lines []string
	sc := bufio.NewScanner(in)
	sc.Buffer(make([]byte, 1<<20), 1<<26)
	for sc.Scan() {
		lines = append(lines, sc.Text())
	}
	synctest.Test(t, func(t *testing.T) {
		for _, line := range lines {
			if line == "" || strings.HasPrefix(line, "#") {
				fmt.Fprintln(w, "#")
				continue
			}
			fmt.Fprintln(w, verifC36Scenario(line))
			w.Flush()
		}
	})
}
