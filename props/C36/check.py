"""C36 — liveness timers close exactly the connections they should.

Proof: lean/CentrifugeVerif/Props/C36.lean over Model/Timers.lean (the single-timer multiplexer
scheduleNextTimer/onTimerOp and the decisions it drives: ping / pong check / stale close / connection
expiry with client- and server-side refresh / subscription expiry on the presence tick).
Tie: a real Node and a real Client inside a testing/synctest bubble (virtual clock; the client's real
time.AfterFunc timer, or a harness TimerScheduler that remembers what is armed); scenario timelines with
ping/pong configs, pongs sent or withheld relative to the actual ping frames, expiry stamps, refreshes,
sub refreshes; every ping, presence tick, disconnect and unsubscribe push is recorded with its virtual
timestamp and compared with the Lean driver's prediction (the first-ping / first-presence jitters the
client drew are read from the client and given to the model as inputs).  The property sentences are
evaluated on the real timeline by an independent oracle.
"""
import json
import os
import subprocess
from concurrent.futures import ThreadPoolExecutor

HARNESS = ["props/C36/harness/root/zz_verif_c36_test.go"]
NS = 1_000_000_000
MS = 1_000_000


# ----------------------------------------------------------------------------- scenarios
def fmt(sc):
    ev = ";".join(":".join(str(x) for x in e) for e in sc["ev"]) or "-"
    pre = ("uni=1 " if sc.get("uni") else "") + ("och=0 " if not sc.get("och", 1) else "")
    return (f"sc {pre}sched={sc['sched']} ping={sc['ping']} pong={sc['pong']} stale={sc['stale']} ecd={sc['ecd']} "
            f"escd={sc['escd']} pres={sc['pres']} csr={sc['csr']} rh={sc['rh']} srh={sc['srh']} "
            f"rhr={','.join(sc['rhr']) or '-'} srhr={','.join(sc['srhr']) or '-'} "
            f"pp={','.join(sc['pp']) or '-'} ppd={sc['ppd']} ev={ev} end={sc['end']}")


def parse(op):
    kv = dict(w.split("=", 1) for w in op.split()[1:])
    lst = lambda s: [] if s in ("-", "") else s.split(",")
    evs = []
    if kv.get("ev", "-") not in ("-", ""):
        for w in kv["ev"].split(";"):
            p = w.split(":")
            evs.append([int(p[0])] + p[1:])
    return {"uni": int(kv.get("uni", "0")), "och": int(kv.get("och", "1")), "sched": int(kv["sched"]), "ping": int(kv["ping"]), "pong": int(kv["pong"]), "stale": int(kv["stale"]),
            "ecd": int(kv["ecd"]), "escd": int(kv["escd"]), "pres": int(kv["pres"]), "csr": int(kv["csr"]),
            "rh": int(kv["rh"]), "srh": int(kv["srh"]), "rhr": lst(kv["rhr"]), "srhr": lst(kv["srhr"]),
            "pp": lst(kv.get("pp", "-")), "ppd": kv.get("ppd", "-"), "ev": evs, "end": int(kv["end"])}


def eff(ms, default_s):
    """config value in ns after the Node/transport defaults (0 → default, < 0 → disabled = 0)."""
    if ms == 0:
        return default_s * NS
    return ms * MS if ms > 0 else 0


def gen(rng):
    sc = {"sched": rng.randint(0, 1), "csr": rng.randint(0, 1), "rh": 1 if rng.random() < 0.7 else 0,
          "srh": 1 if rng.random() < 0.7 else 0}
    sc["uni"] = 1 if rng.random() < 0.15 else 0
    sc["och"] = 0 if rng.random() < (0.5 if sc["uni"] else 0.15) else 1
    if not sc["och"]:
        sc["csr"] = 0                      # without a ConnectingHandler there is no client-side refresh
    sc["ping"] = rng.choice([1000, 1000, 2000, 700, 1500, -1])
    r = rng.random()
    if r < 0.08:
        sc["pong"] = -1
    elif r < 0.14:
        sc["pong"] = sc["ping"] + rng.choice([0, 300]) if sc["ping"] > 0 else 400   # documented as unsupported
    else:
        sc["pong"] = rng.choice([200, 300, 400, 650]) if sc["ping"] != 700 else rng.choice([200, 300, 400])
    sc["stale"] = rng.choice([500, 900, 2000, 2000, -1])
    sc["ecd"] = rng.choice([400, 1000, 1500, 2500])
    sc["escd"] = rng.choice([400, 1000, 1500, 2500])
    sc["pres"] = rng.choice([1000, 1700, 3000])
    t0 = rng.randint(0, 999)
    evs = [[t0, "new"]]
    t = t0
    horizon = rng.choice([6000, 9000, 14000])
    connected = rng.random() < 0.9
    exp = rng.choice([0, 0, 2, 3, 5])
    if connected and sc["och"] and not sc["uni"] and rng.random() < 0.12:
        # the connect fails after authentication (unusable connection): silence, or some later command
        t += rng.choice([50, 200, 450, 800, 1200])
        evs.append([t, "connectfail"])
        connected = False
        if rng.random() < 0.4:
            t += rng.choice([130, 370, 905, 2230])
            evs.append(rng.choice([[t, "pong"], [t, "connect", 0], [t, "refresh", "3"], [t, "sub", 1, 2, 1], [t, "connectfail"]]))
    if connected:
        t += rng.choice([50, 200, 450, 800, 1200, 2500])
        evs.append([t, "connect", exp])
    # pong policy
    T = sc["pong"] if sc["pong"] > 0 else 400
    style = rng.random()
    intime = lambda: str(rng.choice([1, 20, max(1, T // 2), max(1, T - 1)]))
    late = lambda: str(T + rng.choice([1, 50, 200]))
    if style < 0.45:
        sc["pp"], sc["ppd"] = [], intime()                   # always answers
    elif style < 0.55:
        sc["pp"], sc["ppd"] = [], "-"                        # never answers
    else:
        sc["pp"] = [intime() if rng.random() < 0.75 else rng.choice(["-", late()]) for _ in range(rng.randint(1, 8))]
        sc["ppd"] = intime() if rng.random() < 0.7 else "-"
    sc["rhr"] = [rng.choice(["2", "3", "4", "x", "x", "e", "-1", "0"] if rng.random() < 0.12 else ["2", "3", "4"])
                 for _ in range(rng.randint(0, 3))]
    sc["srhr"] = [rng.choice(["2", "3", "x", "e", "-1", "0"]) for _ in range(rng.randint(0, 2))]
    nsub, server_sub_used = 0, False
    if sc["uni"]:
        sc["pp"], sc["ppd"] = [], "-"      # a unidirectional client cannot send pongs (nor any other command)
    while connected and sc["uni"] and t < horizon:
        t += rng.choice([370, 905, 1410, 2230, 3100])
        if rng.random() < 0.5:
            evs.append([t, "srefresh", rng.choice(["2", "3", "5", "4", "0"]) if rng.random() < 0.9 else rng.choice(["-1", "x"])])
    while connected and not sc["uni"] and t < horizon:
        t += rng.choice([130, 370, 610, 905, 1410, 2230])
        r = rng.random()
        if r < 0.30:
            v = rng.choice(["2", "3", "5", "5", "4"]) if rng.random() < 0.88 else rng.choice(["0", "-1", "x", "e"])
            evs.append([t, "refresh", v])
        elif r < 0.50:
            v = rng.choice(["2", "3", "5", "4"]) if rng.random() < 0.88 else rng.choice(["0", "-1", "x"])
            evs.append([t, "srefresh", v])
        elif r < 0.72 and nsub < 2:
            nsub += 1
            csr = rng.randint(0, 1)
            if not csr and sc["srh"]:
                if server_sub_used:
                    csr = 1        # at most one server-refreshed subscription (scripted answers are consumed in map order)
                else:
                    server_sub_used = True
            evs.append([t, "sub", nsub, rng.choice([0, 1, 2, 3]), csr])
        elif r < 0.90 and nsub > 0:
            v = rng.choice(["2", "3", "4"]) if rng.random() < 0.85 else rng.choice(["0", "-1", "x", "e"])
            evs.append([t, "subrefresh", rng.randint(1, nsub), v])
        elif r < 0.93:
            evs.append([t, "pong"])
        elif r < 0.95:
            evs.append([t, "connect", 0])
    sc["ev"] = evs
    sc["end"] = max(t, horizon) + rng.choice([500, 3000])
    return sc


# ----------------------------------------------------------------------------- timelines
def parse_tl(out):
    """-> (jp, jr, [(t, kind, args)], final) ; None when unparseable"""
    kv = {}
    for w in out.split():
        k, _, v = w.partition("=")
        kv[k] = v
    evs = []
    for w in kv.get("tl", "").split(","):
        if not w:
            continue
        t, _, rest = w.partition(":")
        try:
            evs.append((int(t), rest))
        except ValueError:
            return None
    return int(kv.get("jp", "-1")), int(kv.get("jr", "-1")), evs, kv.get("st", "")


def canon(out, sched):
    """canonical comparison form: events sorted by (time, text); armed deadline masked when it is not observable."""
    p = parse_tl(out)
    if p is None:
        return out
    _, _, evs, final = p

    def mask(x):
        if sched:
            return x
        parts = x.split("/")
        if len(parts) >= 9:
            parts[-2] = "?"
        return "/".join(parts)
    evs = sorted((t, mask(e) if e.startswith("s/") else e) for t, e in evs)
    return "tl=" + ",".join(f"{t}:{e}" for t, e in evs) + " st=" + mask(final)


# ----------------------------------------------------------------------------- oracle
def oracle(op, out):
    """C36's sentences on the real timeline.  None or (message, signature)."""
    sc = parse(op)
    if out.startswith("PANIC"):
        return ("panic in the implementation: " + out, {"kind": "panic"})
    if out.startswith("harness-error") or out in ("<missing>", "bad-op"):
        return None
    p = parse_tl(out)
    if p is None:
        return None
    jp, jr, evs, final = p
    I, T = eff(sc["ping"], 25), eff(sc["pong"], 10)
    stale, ecd, escd, pres = eff(sc["stale"], 15), eff(sc["ecd"], 25), eff(sc["escd"], 25), eff(sc["pres"], 25)
    end = sc["end"] * MS
    evs = sorted(evs, key=lambda x: x[0])
    t_new = next((e[0] * MS for e in sc["ev"] if e[1] == "new"), None)
    discs = [(t, int(e.split(":")[1])) for t, e in evs if e.startswith("disc:")]
    t_disc, code = (discs[0] if discs else (None, None))
    open_until = t_disc if t_disc is not None else end + 1
    t_conn = next((t for t, e in evs if e.startswith("connected:")), None)
    pings = [t for t, e in evs if e == "ping"]
    pins = [t for t, e in evs if e == "pin"]
    alives = [t for t, e in evs if e == "alive"]
    cause = "srefresh0" if any(e[1] == "srefresh" and e[2] == "0" for e in sc["ev"]) else "-"
    base = {"csr": sc["csr"], "rh": sc["rh"]}

    def at(t, kind):
        return [ev for ev in sc["ev"] if ev[0] * MS == t and ev[1] == kind]

    # ---- (A) the single timer keeps serving every pending deadline while the connection is open
    if final.startswith("2/"):
        f = final.split("/")
        missed = [int(x) for x in f[2:6] if x != "0" and int(x) < end]
        if missed:
            return (f"connection open at the end ({end}) with pending deadline(s) {missed} in the past: the timer is no "
                    "longer armed, pings / pong checks / presence ticks / expiry stopped",
                    dict(base, kind="timers-stopped", cause=cause))
    if t_conn is not None:
        if I > 0:
            if pings and not (t_conn + I // 2 <= pings[0] < t_conn + I):
                late = pings[0] >= t_conn + I
                return (f"first ping at {pings[0]} outside [connect+I/2, connect+I)",
                        dict(base, kind="timers-stopped", cause=cause) if late else dict(base, kind="first-ping-early"))
            for a, b in zip(pings, pings[1:]):
                if b - a != I:
                    return (f"ping cadence broken: {a} then {b} (interval {I})",
                            dict(base, kind="timers-stopped" if b - a > I else "ping-early", cause=cause))
            nxt = (pings[-1] + I) if pings else t_conn + I
            if nxt < open_until and nxt <= end:
                return (f"pings stopped: none at or before {nxt} although the connection stays open",
                        dict(base, kind="timers-stopped", cause=cause))
        if alives and not (t_conn + pres // 2 <= alives[0] < t_conn + pres):
            late = alives[0] >= t_conn + pres
            return (f"first presence tick at {alives[0]} outside [connect+P/2, connect+P)",
                    dict(base, kind="timers-stopped", cause=cause) if late else dict(base, kind="first-alive-early"))
        for a, b in zip(alives, alives[1:]):
            if b - a != pres:
                return (f"presence tick cadence broken: {a} then {b} (interval {pres})",
                        dict(base, kind="timers-stopped" if b - a > pres else "alive-early", cause=cause))
        nxt = (alives[-1] + pres) if alives else t_conn + pres
        if nxt < open_until and nxt <= end:
            return (f"presence ticks stopped: none at or before {nxt} although the connection stays open",
                    dict(base, kind="timers-stopped", cause=cause))
    # armed timer = minimum of the pending deadlines (state dumps; armed deadline only with the harness scheduler)
    for t, e in evs:
        if not e.startswith("s/2/"):
            continue
        f = e[2:].split("/")
        top, pend, arm = f[1], [int(x) for x in f[2:6]], f[7]
        nz = [x for x in pend if x != 0]
        if nz:
            m = min(nz)
            kinds = {3: pend[0], 2: pend[1], 4: pend[2], 5: pend[3]}
            if arm == "-":
                return (f"no timer armed although deadlines {pend} are pending", dict(base, kind="timers-stopped", cause=cause))
            if kinds.get(int(top)) != m:
                return (f"timerOp {top} is not the kind of the earliest pending deadline {pend}",
                        dict(base, kind="timer-not-min", cause=cause))
            if arm != "?" and arm != str(m):
                return (f"armed timer {arm} is not the earliest pending deadline {m} of {pend}",
                        dict(base, kind="timer-not-min", cause=cause))

    if sc["uni"] and code == 3012:
        return (f"unidirectional connection (it cannot send pongs) closed NoPong at {t_disc}",
                dict(base, kind="nopong-unidirectional", och=sc["och"]))
    # ---- (B) no pong within the timeout ⇒ NoPong at the pong deadline; a pong in time ⇒ survives
    if T > 0 and I > 0 and T < I and not sc["uni"]:   # "PongTimeout must be less than PingInterval" (config.go)
        for pt in pings:
            dl = pt + T
            if dl > end or dl > open_until:
                continue
            answered = any(pt <= x <= dl for x in pins)
            if answered:
                if t_disc == dl and code == 3012:
                    return (f"pong for the ping at {pt} arrived in time but the connection was closed NoPong at {dl}",
                            dict(base, kind="nopong-spurious"))
            elif not (t_disc == dl and code == 3012) and not (t_disc is not None and t_disc < dl):
                return (f"ping at {pt} unanswered until {dl} but no NoPong disconnect at the pong deadline "
                        f"(disconnect: {discs[:1]})", dict(base, kind="nopong-missing", cause=cause))
        if code == 3012 and not any(t_disc == pt + T for pt in pings):
            return (f"NoPong disconnect at {t_disc} is not at ping time + pong timeout", dict(base, kind="nopong-time"))

    # ---- (C) stale
    if t_new is not None:
        dl = t_new + stale
        authed_in_time = t_conn is not None and t_conn <= dl
        if stale > 0 and not authed_in_time and dl <= end:
            if not (t_disc is not None and (t_disc < dl or (t_disc == dl and code == 3502))):
                return (f"connection that never connected successfully (unauthenticated, or its connect failed) not closed Stale at {dl} (disconnects {discs})",
                        dict(base, kind="stale-missing"))
        if code == 3502 and (stale == 0 or authed_in_time or t_disc != dl):
            return (f"Stale close at {t_disc} of an authenticated connection / at the wrong time", dict(base, kind="stale-spurious"))

    # ---- (D) connection expiry, refreshed or not
    stamp = None          # (E unix s rel. base, lower grace ns, upper grace ns, source)
    unlimited = None
    for t, e in evs:
        k = e.split(":")
        if k[0] == "connected":
            ce = [int(ev[2]) for ev in at(t, "connect")]
            g = ecd if (sc["csr"] and sc["och"]) else 0
            stamp = (t // NS + ce[0], g, g, "connect") if ce and ce[0] else None
        elif k[0] == "rrefresh":
            if k[1] == "1":
                stamp, unlimited = (t // NS + int(k[2]), ecd, ecd, "refresh"), None
            else:
                stamp, unlimited = None, ("client", t)
        elif k[0] == "prefresh":
            if k[1] == "1":
                stamp, unlimited = (t // NS + int(k[2]), 0, ecd, "api"), None
            else:
                stamp, unlimited = None, ("api", t)
        elif k[0] == "rh":
            # the server-side refresh handler is asked exactly when the connection is due
            if stamp is None:
                return (f"refresh handler asked at {t} for a connection without expiry", dict(base, kind="expired-spurious"))
            E, glo, ghi, src = stamp
            if not (E * NS + glo <= t <= (E + 1) * NS + ghi):
                return (f"refresh handler asked at {t}, outside expiry {E}s + grace window", dict(base, kind="expired-early", src=src))
            v = k[1]
            if v == "e":
                want = 3004
            elif v == "x" or v.startswith("-"):
                want = 3005
            else:
                want = None
            if want is not None:
                if discs[:1] != [(t, want)]:
                    return (f"refresh handler answered {v} at {t} but the connection was not closed with {want} then "
                            f"(disconnects {discs})", dict(base, kind="expired-missing", src="handler"))
                stamp = None
                break
            if v == "0":
                stamp, unlimited = None, ("handler", t)
            else:
                stamp, unlimited = (t // NS + int(v), 0, 0, "handler"), None
        elif k[0] == "disc":
            if int(k[1]) != 3005:
                stamp = None
                break
            asked = any(ev[2] == "x" or ev[2].startswith("-") for ev in at(t, "refresh") + at(t, "srefresh")) or \
                any(ev[3] == "x" for ev in at(t, "subrefresh")) or \
                bool(at(t, "connectfail"))     # SubRefreshReply.Expired / a failed unidirectional connect → DisconnectExpired
            if not asked:
                if stamp is None:
                    if unlimited is not None:
                        return (f"connection closed Expired at {t} although it was refreshed to 'no expiration' "
                                f"({unlimited[0]} side, at {unlimited[1]})",
                                dict(base, kind="expired-although-unlimited", side=unlimited[0]))
                    return (f"connection without expiry closed Expired at {t}", dict(base, kind="expired-spurious"))
                E, glo, ghi, src = stamp
                if t < E * NS + glo:
                    return (f"connection closed Expired at {t}, before its expiry {E}s + grace {glo}ns (stamp from {src})",
                            dict(base, kind="expired-early", src=src))
            stamp = None
            break
    if stamp is not None:
        E, glo, ghi, src = stamp
        dl = (E + 1) * NS + ghi
        if dl <= end:
            return (f"connection past its expiry {E}s + grace (deadline {dl}) was neither closed nor offered to the "
                    f"refresh handler (disconnects {discs})", dict(base, kind="expired-missing", cause=cause, src=src))
    for ev in sc["ev"]:
        if ev[1] in ("refresh", "srefresh") and ev[2] == "x" and t_conn is not None and ev[0] * MS < open_until:
            if ev[1] == "srefresh" or (sc["csr"] and sc["rh"]):
                return (f"{ev[1]} answered Expired at {ev[0]}ms but the connection stayed open", dict(base, kind="expired-missing", src="explicit"))

    # ---- (E) subscription expiry on the presence tick
    subs = {}
    for t, e in evs:
        k = e.split(":")
        if k[0] == "subscribed":
            for ev in at(t, "sub"):
                ttl = int(ev[3])
                subs[str(ev[2])] = {"E": (t // NS + ttl) if ttl else None, "denied": None, "alive": True,
                                    "server": ev[4] == "0" and bool(sc["srh"])}
        elif k[0] == "rsubrefresh":
            for ev in at(t, "subrefresh"):
                s = subs.get(str(ev[2]))
                if s is None:
                    continue
                if ev[3] == "x":
                    s["denied"] = t               # the handler said Expired: NOT a refresh, the stamp stands
                elif k[1] == "1":
                    s["E"], s["denied"] = t // NS + int(k[2]), None
                else:
                    s["E"], s["denied"] = None, None
        elif k[0] == "srh":
            s = subs.get(k[1])
            if s is None:
                continue
            if s["E"] is None or t < s["E"] * NS + escd:
                return (f"sub refresh handler asked at {t} for subscription {k[1]} before expiry + grace", dict(base, kind="sub-expired-early"))
            v = k[2]
            if v in ("x", "e") or v.startswith("-"):
                s["kill"] = t
                if f"unsub:{k[1]}:2501" not in [x for tt, x in evs if tt == t]:
                    return (f"sub refresh handler answered {v} at {t} but subscription {k[1]} was not unsubscribed",
                            dict(base, kind="sub-expired-missing", cause=cause, denied="-"))
            elif v == "0":
                s["E"] = None
            else:
                s["E"] = t // NS + int(v)
        elif k[0] == "unsub":
            s = subs.get(k[1])
            if s is None or int(k[2]) != 2501:
                continue
            s["alive"] = False
            if s.get("kill") == t:
                continue
            if s["E"] is None:
                return (f"subscription {k[1]} without expiry unsubscribed as expired at {t}", dict(base, kind="sub-expired-spurious"))
            if t < s["E"] * NS + escd:
                return (f"subscription {k[1]} unsubscribed as expired at {t}, before expiry {s['E']}s + grace {escd}ns",
                        dict(base, kind="sub-expired-early"))
    for ch, s in subs.items():
        if not s["alive"] or s["E"] is None:
            continue
        thr = (s["E"] + (escd + NS - 1) // NS + 1) * NS
        ticks = [a for a in alives if a >= thr and (s["denied"] is None or a > s["denied"])]
        if ticks and ticks[0] < open_until:
            return (f"subscription {ch} past its expiry {s['E']}s + grace is still subscribed after the presence tick at "
                    f"{ticks[0]}" + (f" (its sub refresh at {s['denied']} was answered Expired)" if s["denied"] else ""),
                    dict(base, kind="sub-expired-missing", cause=cause, denied="refresh-denied" if s["denied"] else "-"))
    return None


# ----------------------------------------------------------------------------- run
def run_parallel(ctx, binary, ops, workers=4):
    n = len(ops)
    if n == 0:
        return []
    chunk = (n + workers - 1) // workers
    chunks = [ops[i:i + chunk] for i in range(0, n, chunk)]
    with ThreadPoolExecutor(max_workers=workers) as ex:
        res = list(ex.map(lambda c: _run_chunk(ctx, binary, c), enumerate(chunks)))
    out = []
    for c, r in zip(chunks, res):
        r = r + ["<missing>"] * (len(c) - len(r))
        out += r[:len(c)]
    return out


def _run_chunk(ctx, binary, ic):
    from vlib.core import go_env
    i, lines = ic
    ops = os.path.join(ctx.tmp, f"c36ops{i}_{id(lines)}.txt")
    outp = ops + ".out"
    open(ops, "w").write("\n".join(lines) + "\n")
    e = go_env()
    e.update({"VERIF_OPS": ops, "VERIF_OUT": outp})
    try:
        subprocess.run([binary, "-test.run", "^TestVerifC36$", "-test.count=1", "-test.timeout=3000s"],
                       stdout=subprocess.PIPE, stderr=subprocess.STDOUT, env=e, timeout=3100, cwd=ctx.tmp)
    except subprocess.TimeoutExpired:
        pass
    return open(outp).read().splitlines() if os.path.exists(outp) else []


def judge(op, out):
    return oracle(op, out)


def shrink(ctx, binary, op, sig):
    sc = parse(op)

    def fails(c):
        o = fmt(c)
        out = ctx.go_run(binary, "TestVerifC36", [o])
        r = judge(o, out[0]) if out else None
        return r is not None and r[1] == sig
    budget = 25
    changed = True
    while changed and budget > 0:
        changed = False
        lst = sc["ev"]
        for i in range(len(lst) - 1, 0, -1):
            if lst[i][1] in ("new",):
                continue
            c = dict(sc)
            c["ev"] = lst[:i] + lst[i + 1:]
            budget -= 1
            if budget <= 0:
                break
            if fails(c):
                sc, changed = c, True
                break
    return fmt(sc)


def run(ctx):
    ctx.rule = ("scenario timelines on a virtual clock: ping interval / pong timeout / stale / expired-close / "
                "expired-sub-close / presence interval configs, default timer or harness TimerScheduler, connect at a "
                "random sub-second phase with or without ExpireAt, client- or server-side refresh mode, pong policy per "
                "ping (in time incl. 1 ms before the deadline, late, withheld), client refresh commands, Client.Refresh "
                "calls, scripted RefreshHandler / SubRefreshHandler answers (new stamp, zero, past, Expired, error), "
                "subscriptions with ExpireAt and sub refresh commands; non-trivial = connected and ≥ 3 events; distinct = line")
    ctx.assumptions = [
        "timers fire at their deadline (virtual clock); an event at time T happens after every timer due at ≤ T",
        "RefreshHandler / SubRefreshHandler answer synchronously",
        "PongTimeout < PingInterval for the no-pong sentences (documented requirement in config.go)",
        "unusable connections, server-side subscriptions, maxTTLSeconds capping are not modelled",
    ]
    proofs_ok = ctx.lean_obligations()
    ctx.log("lean obligations done")
    binary = ctx.go_test_binary(".", HARNESS)
    if binary is None:
        ctx.violation("correspondence", "harness no longer builds against package centrifuge",
                      signature={"kind": "harness-build"}, replay={"log": getattr(ctx, "build_error", "")},
                      no_input=True)
        return
    ctx.log("harness built")
    if ctx.replay:
        ops = json.load(open(ctx.replay)).get("ops", [])
    else:
        corpus = [l.strip() for l in open("props/C36/corpus.ops") if l.strip() and not l.startswith("#")]
        known = []
        try:
            for f in json.load(open("props/C36/findings.json"))["findings"]:
                known += f.get("replay", {}).get("ops", [])
        except FileNotFoundError:
            pass
        ops = known + corpus + [fmt(gen(ctx.rng)) for _ in range(ctx.scale(500, 20000))]
    impl = run_parallel(ctx, binary, ops, workers=4)
    ctx.log("implementation run done")
    mops = []
    for i, op in enumerate(ops):
        out = impl[i] if i < len(impl) else "<missing>"
        p = parse_tl(out) if out.startswith("jp=") else None
        jp, jr = (p[0], p[1]) if p else (-1, -1)
        mops.append(f"{op} jp={max(jp, 0)} jr={max(jr, 0)}")
    model = ctx.lean_run(mops)
    ctx.log("model run done")
    if model is None:
        proofs_ok = False
        model = []
    herr, ndiff, ncmp = 0, 0, 0
    nviol = {}
    for i, op in enumerate(ops):
        out = impl[i] if i < len(impl) else "<missing>"
        sc = parse(op)
        ctx.record(op, nontrivial=any(e[1] == "connect" for e in sc["ev"]) and len(sc["ev"]) >= 3)
        if out.startswith("harness-error") or out == "<missing>" or not out.startswith("jp="):
            herr += 1
            ctx.count("harness-error")
            continue
        p = parse_tl(out)
        for t, e in (p[2] if p else []):
            k = e.split(":")[0]
            if k.startswith("s/"):
                continue
            ctx.count("ev:" + (e if k in ("disc", "err") else k))
        ctx.count(f"mode:csr={sc['csr']},rh={sc['rh']},sched={sc['sched']}")
        ctx.count(f"transport:uni={sc['uni']},connecting-handler={sc['och']}")
        r = judge(op, out)
        if r:
            msg, sig = r
            key = json.dumps(sig, sort_keys=True)
            nviol[key] = nviol.get(key, 0) + 1
            if nviol[key] == 1:
                small = shrink(ctx, binary, op, sig)
                sout = ctx.go_run(binary, "TestVerifC36", [small])
                r2 = judge(small, sout[0]) if sout else None
                if r2 is None or r2[1] != sig:
                    small, sout, r2 = op, [out], r
                ctx.violation("property", r2[0], signature=r2[1],
                              replay={"ops": [small], "impl": sout, "original_op": op})
        a = canon(out, sc["sched"])
        b = canon(model[i], sc["sched"]) if i < len(model) else "<missing>"
        ncmp += 1
        if a != b:
            ndiff += 1
            if ndiff <= 3:
                # first differing event
                ea, eb = a.split(","), b.split(",")
                j = next((j for j in range(min(len(ea), len(eb))) if ea[j] != eb[j]), min(len(ea), len(eb)))
                ctx.violation("correspondence",
                              f"model and implementation timelines differ at event {j}: impl `{ea[j] if j < len(ea) else '<end>'}` "
                              f"model `{eb[j] if j < len(eb) else '<end>'}`",
                              signature={"kind": "diff", "csr": sc["csr"], "rh": sc["rh"]},
                              replay={"ops": [op], "impl": [out], "model": [model[i] if i < len(model) else "<missing>"],
                                      "correspondence": "Drivers/C36.lean vs client.go timers"},
                              no_input=not ctx.violations)
    ctx.extra["harness_errors_dropped"] = herr
    ctx.extra["disagreements"] = ndiff
    ctx.traces_validated = ncmp
    if herr > len(ops) // 10:
        ctx.notes.append(f"{herr} scenarios dropped as harness errors")
    if not proofs_ok:
        ctx.proof_broken()
