"""C25 — shared-poll keyed delivery is monotonic and delta-consistent.

Proof: lean/CentrifugeVerif/Props/C25.lean over Model/Keyed.lean (sequential applyRefreshResponse,
SharedPollPublish, track/untrack/revoke/unsubscribe, keyedWritePublication with the ghost "bytes held").
Tie: real Node + real Clients (recording JSON transports) under testing/synctest; poll responses are
injected through the real applyRefreshResponse, publishes through the real SharedPollPublish; the Lean
driver runs the same op lines and must print the same lines.
Oracle: C25's statement on what the real transports received: per (connection, key) versions strictly
increase, every delta applies (real fossil Apply) to what the connection held and yields the payload that
was provided together with that version, nothing is pushed after untrack / revoke / unsubscribe, an epoch
change unsubscribes every tracking connection with code 2500, and after a final full poll every tracked
key holds the newest version provided.
"""
import json
import os
from concurrent.futures import ThreadPoolExecutor

HARNESS = ["props/C25/harness/root/zz_verif_c25_test.go"]
KEYS = ["a", "b", "c"]
CONNS = ["c1", "c2", "c3"]


# ----------------------------------------------------------------------------- generator
def gen_scenario(rng, nops=None):
    mode = rng.choice(["v", "v", "l"])
    keep = rng.choice([0, 1])
    shut = 1 if rng.random() < 0.3 else 0
    lines = [f"reset mode={mode} keep={keep} shut={shut}"]
    subd, tracked = {}, {c: {} for c in CONNS}
    ctr = [0]
    backend = {}            # key -> (version, data id)   newest the backend knows
    newest = {}             # key -> (version, data id)   newest provided by anyone (this epoch)
    hist = {k: [] for k in KEYS}   # key -> [(version, data)] provided so far (this epoch)
    epoch = "-"
    state = {"chan": False, "cur": "-", "dropped": False}
    allow_race = rng.random() < 0.06
    blocks = rng.random() < 0.4          # scenario with parked deliveries / deferred OnTrack verdicts

    def mgr_data(k):
        """payload of the version the manager currently stores for k (what a correct backend's PrevData is relative to):
        the newest pair provided while some connection tracked the key"""
        return mgr.get(k, (0, None))[1] if any(k in tracked[c] for c in CONNS) else None

    def mgr_see(k, v, d):
        if any(k in tracked[c] for c in CONNS):
            if v > mgr.get(k, (0, None))[0]:
                mgr[k] = (v, d)
        else:
            mgr.pop(k, None)
    mgr = {}
    pending_tracks = []

    def maybe_flip(ep):
        """the manager flips its stored epoch when an op carries a different one (versioned, channel state exists)"""
        nonlocal backend, newest, hist
        if mode != "v" or not state["chan"] or ep == state["cur"]:
            return
        state["cur"] = ep
        mgr.clear()
        for c in CONNS:
            if tracked[c]:
                subd.pop(c, None)
                tracked[c] = {}
                state["dropped"] = True

    def fresh(fam=None):
        ctr[0] += 1
        return (fam or rng.choice("ab")) + str(ctr[0])

    nops = nops or rng.randint(8, 40)
    for _ in range(nops):
        # immediate shutdown: the channel state (and its epoch) is dropped when an untrack / unsubscribe / revoke /
        # refused track leaves the item index empty (a removal reported by the backend does not trigger it)
        last = lines[-1].split()
        if shut and state["chan"] and not any(tracked[c] for c in CONNS) and \
                (last[0] in ("rvk", "tcb") or (last[0] in ("utk", "unsub", "close", "resp", "pub", "bgpub", "rel") and state["dropped"])):
            state["chan"], state["cur"] = False, "-"
        state["dropped"] = False
        if shut and mode == "v" and rng.random() < 0.12:
            # delta subscription whose channel shuts down before the unsubscribe, then a plain resubscribe
            cands = [c for c in CONNS if c not in subd] or []
            if cands and not any(tracked[c] for c in CONNS):
                c, k = rng.choice(cands), rng.choice(KEYS)
                nv_, nd_ = newest.get(k, (0, None))
                d1, d2 = fresh(nd_[0] if nd_ else None), None
                d2 = fresh(d1[0])
                lines += [f"sub {c} delta=1", f"trk {c} {k} 0", f"utk {c} {k}", f"unsub {c}", f"sub {c} delta=0", f"trk {c} {k} 0"]
                state["chan"], state["cur"] = True, "-"
                subd[c] = 0
                tracked[c] = {k: 0}
                mgr.pop(k, None)
                maybe_flip(epoch)
                if c in subd:
                    lines.append(f"pub {k} {nv_ + 1} {epoch} {d1}")
                    lines.append(f"pub {k} {nv_ + 2} {epoch} {d2}")
                    newest[k] = (nv_ + 2, d2)
                    hist[k] += [(nv_ + 1, d1), (nv_ + 2, d2)]
                    mgr_see(k, nv_ + 2, d2)
                continue
        for kk in list(mgr):
            if not any(kk in tracked[c] for c in CONNS):
                mgr.pop(kk)          # the entry is deleted when its last subscriber leaves
        r = rng.random()
        free = [c for c in CONNS if c not in subd]
        live = [c for c in CONNS if c in subd]
        if (r < 0.12 and free) or not live:
            c = rng.choice(free or CONNS)
            if c in subd:
                continue
            d = rng.choice([0, 1, 1])
            subd[c] = d
            lines.append(f"sub {c} delta={d}")
        elif r < 0.30:
            c, k = rng.choice(live), rng.choice(KEYS)
            have = tracked[c].get(k)
            cur = newest.get(k, (0, None))[0]
            v = rng.choice([0, 0, 0, have or 0, cur, max(0, cur - 1)]) if mode == "v" else 0
            tracked[c][k] = v
            state["chan"] = True
            lines.append(f"trk {c} {k} {v}")
        elif r < 0.36:
            c = rng.choice(live)
            if tracked[c]:
                k = rng.choice(sorted(tracked[c]))
                tracked[c].pop(k)
                state["dropped"] = True
                lines.append(f"utk {c} {k}")
        elif r < 0.40:
            c = rng.choice(live)
            lines.append(rng.choice(["unsub", "unsub", "close"]) + f" {c}")
            subd.pop(c)
            state["dropped"] = bool(tracked[c])
            tracked[c] = {}
        elif r < 0.43:
            k = rng.choice(KEYS)
            lines.append(f"rvk {k}")
            for c in CONNS:
                tracked[c].pop(k, None)
        elif r < 0.70:
            # backend poll response for 1..3 keys
            items = []
            pending_seen = []
            for k in rng.sample(KEYS, rng.randint(1, 3)):
                if rng.random() < 0.05:
                    items.append(f"{k}:x")
                    for c in CONNS:
                        tracked[c].pop(k, None)
                    continue
                bv, bd = backend.get(k, (0, None))
                q = rng.random()
                if mode == "l":
                    if bd is None or q < 0.5:
                        bd = fresh(bd[0] if bd and rng.random() < 0.7 else None)
                    backend[k] = (0, bd)
                    items.append(f"{k}:0:{bd}")
                    continue
                nv_, nd_ = newest.get(k, (0, None))
                if q < 0.55 or bd is None:
                    prevd = bd
                    bv = max(bv, nv_) + rng.choice([1, 1, 2])
                    bd = fresh(nd_[0] if nd_ and rng.random() < 0.7 else None)
                    backend[k] = (bv, bd)
                    hist[k].append((bv, bd))
                    newest[k] = (bv, bd)
                    pending_seen.append((k, bv, bd))
                    if not keep and rng.random() < 0.6:
                        # PrevData: payload of the version the manager holds (correct), or - race - of the
                        # version the in-flight poll asked about
                        for kk in list(mgr):
                            if not any(kk in tracked[c] for c in CONNS):
                                mgr.pop(kk)
                        base = mgr_data(k)
                        if allow_race and prevd and prevd != base and rng.random() < 0.5:
                            base = prevd
                        items.append(f"{k}:{bv}:{bd}:{base or '-'}")
                    else:
                        items.append(f"{k}:{bv}:{bd}")
                else:
                    # backend unchanged / behind a publisher: repeats what it has
                    items.append(f"{k}:{bv}:{bd}")
            ep = epoch
            if mode == "v" and rng.random() < 0.04:
                epoch = ep = "E" + str(ctr[0])
                backend, newest = {}, {}
                hist = {k: [] for k in KEYS}
                items = []
            maybe_flip(ep)
            for (kk, vv, dd) in pending_seen:
                mgr_see(kk, vv, dd)
            for w in items:
                pp = w.split(":")
                if len(pp) >= 3 and (pp[0], int(pp[1]), pp[2]) not in pending_seen:
                    mgr_see(pp[0], int(pp[1]), pp[2])
            lines.append(f"resp {ep} " + " ".join(items))
        elif mode == "v" and blocks and rng.random() < 0.5 and not pending_tracks and \
                [(c, k) for c in live for k in tracked[c] if sum(1 for c2 in CONNS if k in tracked[c2]) == 1]:
            # race block: a publish whose delivery parks between the optimistic check and the re-check under the
            # lock, then deliveries / re-tracks / unsubscribes of the same connection, then the parked one resumes
            c, k = rng.choice([(c, k) for c in live for k in sorted(tracked[c])
                               if sum(1 for c2 in CONNS if k in tracked[c2]) == 1])
            nv_, nd_ = newest.get(k, (0, None))
            v = nv_ + 1
            d = fresh(nd_[0] if nd_ and rng.random() < 0.7 else None)
            newest[k] = (v, d)
            hist[k].append((v, d))
            mgr_see(k, v, d)
            lines.append(f"bgpub {k} {v} {state['cur']} {d}")
            q = rng.random()
            if q < 0.35:
                tracked[c][k] = 0
                lines.append(f"trk {c} {k} 0")                     # keep: cached item of the same version
            elif q < 0.7:
                others = [c2 for c2 in live if c2 != c]
                if others:
                    c2 = rng.choice(others)
                    tracked[c2][k] = 0
                    lines.append(f"trk {c2} {k} 0")                # !keep: needsBroadcast, then the same version again
                lines.append(f"resp {state['cur']} {k}:{v}:{d}")
            elif q < 0.8:
                state["dropped"] = state["dropped"] or k in tracked[c]
                tracked[c].pop(k, None)
                lines.append(f"utk {c} {k}")
            elif q < 0.9:
                v2, d2 = v + 1, fresh(d[0])
                newest[k] = (v2, d2)
                hist[k].append((v2, d2))
                mgr_see(k, v2, d2)
                lines.append(f"pub {k} {v2} {state['cur']} {d2}")
            lines.append("rel")
        elif blocks and rng.random() < 0.3 and not pending_tracks:
            # deferred OnTrack verdict; the subscription may end / be replaced before it arrives
            c, k = rng.choice(live), rng.choice(KEYS)
            lines.append(f"trkd {c} {k} 0")
            valid = True
            q = rng.random()
            if q < 0.45:
                lines.append(f"unsub {c}")
                tracked[c] = {}
                lines.append(f"sub {c} delta={subd[c]}")
                valid = False
            elif q < 0.6:
                lines.append(f"unsub {c}")
                tracked[c] = {}
                subd.pop(c)
                valid = False
            elif q < 0.8 and mode == "v":
                k2 = rng.choice(KEYS)
                nv_, nd_ = newest.get(k2, (0, None))
                d = fresh(nd_[0] if nd_ else None)
                newest[k2] = (nv_ + 1, d)
                hist[k2].append((nv_ + 1, d))
                maybe_flip(epoch)
                mgr_see(k2, nv_ + 1, d)
                lines.append(f"pub {k2} {nv_ + 1} {epoch} {d}")
                valid = c in subd
            lines.append("tcb")
            state["chan"] = True
            if valid:
                tracked[c][k] = 0
        elif mode == "v":
            k = rng.choice(KEYS)
            nv_, nd_ = newest.get(k, (0, None))
            v = nv_ + rng.choice([1, 1, 1, 2, 0, -1])
            if v <= 0:
                v = 1
            d = fresh(nd_[0] if nd_ and rng.random() < 0.7 else None)
            if v > nv_:
                newest[k] = (v, d)
                hist[k].append((v, d))
            else:
                # a late / duplicate publish repeats the payload that version had (one payload per version)
                same = [x for (vv, x) in hist[k] if vv == v]
                if not same:
                    continue
                d = same[0]
            maybe_flip(epoch)
            mgr_see(k, v, d)
            lines.append(f"pub {k} {v} {epoch} {d}")
    # final full polls: the backend has caught up with every publisher
    items = []
    for k in KEYS:
        if mode == "l":
            bd = backend.get(k, (0, None))[1] or fresh()
            items.append(f"{k}:0:{bd}")
        else:
            v, d = newest.get(k, (0, None))
            if d is None:
                v, d = 1, fresh()
            items.append(f"{k}:{v}:{d}")
    maybe_flip(epoch)
    lines.append(f"resp {epoch} " + " ".join(items))
    lines.append("#final")
    return lines


# ----------------------------------------------------------------------------- oracle
def parse_out(out):
    """-> ({conn: [tokens]}, st dict or None)"""
    conns, st = {}, None
    i = 0
    s = out
    for pre in ("nochan ", "err "):
        if s.startswith(pre):
            s = s[len(pre):]
    while i < len(s):
        if s[i] == " ":
            i += 1
            continue
        j = s.find("[", i)
        sp = s.find(" ", i)
        if s.startswith("st=", i):
            st = s[i + 3:].strip()
            break
        if j < 0 or (0 <= sp < j):
            break
        name = s[i:j]
        e = s.find("]", j)
        conns[name] = s[j + 1:e].split()
        i = e + 1
    return conns, st


def st_versions(st):
    d = {}
    if st and st not in ("none", "-"):
        for part in st.split(","):
            k, v, nb, data = part.split(":")
            d[k] = (int(v), int(nb), data)
    return d


def oracle(lines, outs):
    """Evaluate C25 on one scenario.  Returns list of (msg, signature, index)."""
    viol = []
    kv = dict(w.split("=") for w in lines[0].split()[1:])
    mode, keep = kv["mode"], int(kv["keep"])
    tracked = {}                 # (conn,key) -> last version
    held = {}                    # (conn,key) -> data id
    pairs = {}                   # key -> {version: data} provided together (current epoch), versioned
    datas = {}                   # key -> set of data ids provided
    vl_pairs = {}                # versionless: key -> {synthetic version: data}
    epoch = ""
    prev_st = {}
    final_idx = None
    gen = {}                     # conn -> generation of its current subscription (absent = not subscribed)
    gen_ctr = [0]
    cdelta = {}                  # conn -> the current subscription negotiated delta
    broken = set()               # (conn, key) whose held bytes are undefined after a patch that did not apply
    ptracks = []                 # deferred track requests: (conn, key, version, generation at request time)
    for i, (op, out) in enumerate(zip(lines, outs)):
        f = op.split()
        if f[0] == "reset" or op.startswith("#"):
            if op.startswith("#final"):
                final_idx = i
            continue
        if out.startswith("PANIC"):
            viol.append(("panic in the implementation: " + out, {"kind": "panic"}, i))
            return viol
        if out.startswith("harness-error") or out.startswith("bad-op") or out == "<missing>":
            return None
        conns, st = parse_out(out)
        if prev_st == "none":
            epoch = ""              # a dropped channel state starts again with the empty publisher epoch
            vl_pairs = {}           # ... and with a fresh synthetic version counter
        stale_prev = False
        flip = False
        if f[0] == "sub" and not any(t.startswith("err:") for t in conns.get(f[1], [])):
            gen_ctr[0] += 1
            gen[f[1]] = gen_ctr[0]
            cdelta[f[1]] = f[2] == "delta=1"
        elif f[0] == "trkd":
            if not any(t.startswith("err:") for t in conns.get(f[1], [])):
                ptracks.append((f[1], f[2], int(f[3]), gen.get(f[1])))
        elif f[0] == "tcb" and ptracks:
            c_, k_, v_, g_ = ptracks.pop(0)
            refused = any(t.startswith("err:") for t in conns.get(c_, []))
            if g_ is not None and gen.get(c_) == g_:
                if not refused:
                    tracked[(c_, k_)] = v_
                    if v_ == 0:
                        held.pop((c_, k_), None)
            elif not refused and c_ in gen:
                viol.append((f"track request of {c_} for key {k_} issued on a subscription that has ended was committed onto the current subscription",
                             {"kind": "stale-track-committed"}, i))
        if f[0] == "trk":
            if any(t.startswith("err:") for t in conns.get(f[1], [])):
                ctx_err = True          # the track was refused (not subscribed): nothing is tracked
            else:
                tracked[(f[1], f[2])] = int(f[3])
                if int(f[3]) == 0:
                    held.pop((f[1], f[2]), None)
        elif f[0] in ("resp", "pub", "bgpub"):
            ep = f[1] if f[0] == "resp" else f[3]
            ep = "" if ep == "-" else ep
            if mode == "v" and ep != epoch and not out.startswith("nochan") and prev_st is not None and "none" != prev_st:
                flip = True
                epoch = ep
                pairs, datas = {}, {}
            if f[0] == "resp":
                for w in f[2:]:
                    p = w.split(":")
                    if len(p) >= 3:
                        datas.setdefault(p[0], set()).add(p[2])
                        if mode == "v" or int(p[1]) != 0:
                            pairs.setdefault(p[0], {}).setdefault(int(p[1]), set()).add(p[2])
                        if len(p) > 3 and p[3] != "-":
                            cur = st_versions(prev_st if isinstance(prev_st, str) else None).get(p[0])
                            if cur and cur[0] > 0:
                                known = pairs.get(p[0], {}).get(cur[0], set())
                                if p[3] not in known:
                                    stale_prev = True
            else:
                datas.setdefault(f[1], set()).add(f[4])
                pairs.setdefault(f[1], {}).setdefault(int(f[2]), set()).add(f[4])
        # connections that must be unsubscribed by an epoch flip
        if flip:
            must = sorted({c for (c, k) in tracked})
            for c in must:
                if "unsub:2500" not in conns.get(c, []):
                    viol.append((f"epoch change did not unsubscribe tracking connection {c} with insufficient state",
                                 {"kind": "epoch-flip-no-unsub"}, i))
        for c, toks in conns.items():
            for t in toks:
                if t.startswith("unsub:") or t.startswith("disc:"):
                    for ck in [ck for ck in tracked if ck[0] == c]:
                        tracked.pop(ck)
                        held.pop(ck, None)
                    gen.pop(c, None)
                    continue
                if t.startswith("err:") or t == "?":
                    continue
                item = t.startswith("R:")
                body = t[2:] if item else t
                k, rest = body.split("=", 1)
                if rest == "x":
                    tracked.pop((c, k), None)
                    held.pop((c, k), None)
                    continue
                v, kind, res = rest.split(":", 2)
                v = int(v)
                if (c, k) not in tracked:
                    why = "untracked"
                    viol.append((f"push of key {k} v{v} to {c} after untrack / revoke / unsubscribe",
                                 {"kind": "push-after-untrack"}, i))
                    continue
                if v <= tracked[(c, k)]:
                    viol.append((f"version pushed to {c} for key {k} does not increase: {tracked[(c, k)]} then {v}",
                                 {"kind": "version-not-increasing", "delta": kind == "D"}, i))
                tracked[(c, k)] = v
                if not cdelta.get(c, False) and (kind == "D" or res == "!escaped"):
                    viol.append((f"connection {c} whose subscription did not negotiate delta got a {'delta' if kind == 'D' else 'JSON-string-escaped'} push for key {k} v{v}",
                                 {"kind": "delta-on-plain-subscription"}, i))
                    continue
                if res.startswith("!") and (c, k) in broken:
                    continue        # consequence of an earlier failed patch: the bytes held are already undefined
                if res.startswith("!"):
                    broken.add((c, k))
                    viol.append((f"delta push {k} v{v} to {c} does not apply to the bytes the connection holds ({res})",
                                 {"kind": "delta-not-applicable", "mode": mode, "keep": keep, "stale_prevdata": stale_prev}, i))
                    continue
                held[(c, k)] = res
                if kind == "F":
                    broken.discard((c, k))
                if mode == "v":
                    if res not in pairs.get(k, {}).get(v, set()):
                        viol.append((f"pushed pair (v{v}, {res}) for key {k} was never provided together",
                                     {"kind": "pair-not-provided", "mode": mode, "keep": keep}, i))
                else:
                    if res not in datas.get(k, set()):
                        viol.append((f"pushed payload {res} for key {k} was never provided", {"kind": "pair-not-provided", "mode": mode, "keep": keep}, i))
                    seen = vl_pairs.setdefault(k, {})
                    if seen.setdefault(v, res) != res:
                        viol.append((f"synthetic version {v} of key {k} delivered with two different payloads",
                                     {"kind": "pair-not-provided", "mode": mode, "keep": keep}, i))
        if f[0] == "utk":
            tracked.pop((f[1], f[2]), None)
            held.pop((f[1], f[2]), None)
        elif f[0] in ("unsub", "close"):
            for ck in [ck for ck in tracked if ck[0] == f[1]]:
                tracked.pop(ck)
                held.pop(ck, None)
            gen.pop(f[1], None)
        elif f[0] == "rvk":
            for ck in [ck for ck in tracked if ck[1] == f[1]]:
                tracked.pop(ck)
                held.pop(ck, None)
        elif f[0] == "resp":
            for w in f[2:]:
                p = w.split(":")
                if len(p) == 2 and p[1] == "x":
                    for ck in [ck for ck in tracked if ck[1] == p[0]]:
                        tracked.pop(ck)
                        held.pop(ck, None)
        prev_st = st
    # eventual delivery after the final full poll
    if final_idx is not None and not viol:
        last = lines[final_idx - 1].split()
        if last[0] == "resp":
            want = {}
            for w in last[2:]:
                p = w.split(":")
                if len(p) >= 3:
                    want[p[0]] = (int(p[1]), p[2])
            for (c, k), v in tracked.items():
                if k not in want:
                    continue
                wv, wd = want[k]
                if mode == "v":
                    top = max(pairs.get(k, {0: None}))
                    if v < top:
                        viol.append((f"after the final full poll {c} holds v{v} ({held.get((c, k))}) of key {k}, newest provided is v{top}",
                                     {"kind": "not-eventually-newest", "mode": mode, "keep": keep}, final_idx - 1))
                else:
                    if held.get((c, k)) != wd:
                        viol.append((f"after the final full poll {c} holds {held.get((c, k))} for key {k}, backend has {wd}",
                                     {"kind": "not-eventually-newest", "mode": mode, "keep": keep}, final_idx - 1))
    return viol


# ----------------------------------------------------------------------------- run
def split_scenarios(lines):
    scs, cur = [], []
    for l in lines:
        if l.startswith("reset") and cur:
            scs.append(cur)
            cur = []
        cur.append(l)
    if cur:
        scs.append(cur)
    return scs


def run_go(ctx, binary, scs, workers=4):
    """Run scenarios in `workers` processes; returns list of output-line lists (one per scenario)."""
    import subprocess
    from vlib.core import go_env
    chunks = [scs[i::workers] for i in range(workers)]

    def one(ic):
        i, chunk = ic
        if not chunk:
            return []
        ops = os.path.join(ctx.tmp, f"c25ops{i}.txt")
        outp = ops + ".out"
        with open(ops, "w") as fh:
            for sc in chunk:
                fh.write("\n".join(l for l in sc if not l.startswith("#")) + "\n")
        e = go_env()
        e.update({"VERIF_OPS": ops, "VERIF_OUT": outp})
        try:
            subprocess.run([binary, "-test.run", "^TestVerifC25$", "-test.count=1", "-test.timeout=3000s"],
                           stdout=subprocess.PIPE, stderr=subprocess.STDOUT, env=e, timeout=3100, cwd=ctx.tmp)
        except subprocess.TimeoutExpired:
            pass
        got = open(outp).read().splitlines() if os.path.exists(outp) else []
        res, pos = [], 0
        for sc in chunk:
            n = len([l for l in sc if not l.startswith("#")])
            o = got[pos:pos + n]
            pos += n
            o += ["<missing>"] * (n - len(o))
            # re-insert comment lines
            full, it = [], iter(o)
            for l in sc:
                full.append("#" if l.startswith("#") else next(it))
            res.append(full)
        return res
    with ThreadPoolExecutor(max_workers=workers) as ex:
        parts = list(ex.map(one, enumerate(chunks)))
    out = [None] * len(scs)
    for w, part in enumerate(parts):
        for j, r in enumerate(part):
            out[w + j * workers] = r
    return out


def shrink(ctx, binary, sc, sig):
    from vlib.core import ddmin
    if sig.get("kind") == "not-eventually-newest":
        return sc          # the final full poll is only meaningful for the whole scenario
    budget = [30]

    def fails(body):
        if budget[0] <= 0:
            return False
        budget[0] -= 1
        cand = [sc[0]] + body
        o = run_go(ctx, binary, [cand], workers=1)[0]
        v = oracle(cand, o)
        return bool(v) and any(x[1] == sig for x in v)
    try:
        body = ddmin(sc[1:], fails)
    except AssertionError:
        body = sc[1:]
    return [sc[0]] + body


def run(ctx):
    ctx.rule = ("scenario = reset(mode versioned/versionless, KeepLatestData) + 8..40 ops over 3 connections x 3 keys: "
                "subscribe (delta or not), track (version 0 / held / current / stale), untrack, unsubscribe, close, revoke, "
                "poll responses (newer, equal, behind a publisher, removals, PrevData, epoch change), SharedPollPublish "
                "(newer, equal, older), then a final full poll; non-trivial = scenario with at least one push; distinct = distinct scenario text")
    ctx.assumptions = [
        "operations run one at a time (in-flight poll responses racing a publish are issued after the publish); "
        "goroutine-level interleavings inside keyedWritePublication (phase 1 / phase 3) are not explored",
        "fossil delta codec: apply(base, create(base, target)) = target (checked on every delta push by the harness with the real Apply)",
        "harness payloads: patches inside a payload family are smaller than the payload, across families not (model: sameFamily)",
        "xxhash64 collisions ignored (versionless change detection modelled as payload equality)",
        "PublishEnabled=false (local mode); broker fan-out of SharedPollPublish is not exercised",
    ]
    proofs_ok = ctx.lean_obligations()
    binary = ctx.go_test_binary(".", HARNESS)
    if binary is None:
        ctx.violation("correspondence", "harness no longer builds against package centrifuge",
                      signature={"kind": "harness-build"}, replay={"log": getattr(ctx, "build_error", "")}, no_input=True)
        return
    if ctx.replay:
        scs = split_scenarios(json.load(open(ctx.replay)).get("ops", []))
    else:
        corpus = [l.strip() for l in open("props/C25/corpus.ops") if l.strip()]
        known = []
        try:
            for f in json.load(open("props/C25/findings.json"))["findings"]:
                known += f.get("replay", {}).get("ops", [])
        except FileNotFoundError:
            pass
        scs = split_scenarios(known) + split_scenarios(corpus)
        scs += [gen_scenario(ctx.rng) for _ in range(ctx.scale(250, 6000))]
    impl = run_go(ctx, binary, scs)
    flat = [l for sc in scs for l in sc]
    model = ctx.lean_run(flat)
    if model is None:
        proofs_ok = False
        model = []
    pos, herr, ndiff, seen = 0, 0, 0, {}
    for sc, out in zip(scs, impl):
        mout = model[pos:pos + len(sc)]
        pos += len(sc)
        npush = sum(1 for o in out if "[" in o)
        ctx.record("\n".join(sc), nontrivial=npush > 0)
        for l in sc:
            ctx.count("op:" + l.split()[0])
        for o in out:
            for c, toks in parse_out(o)[0].items() if "[" in o else []:
                for t in toks:
                    if ":D:" in t:
                        ctx.count("push:delta")
                    elif ":F:" in t:
                        ctx.count("push:full" if not t.startswith("R:") else "reply-item")
                    elif t.endswith("=x"):
                        ctx.count("push:removal")
                    elif t.startswith("unsub:"):
                        ctx.count("push:unsub")
        v = oracle(sc, out)
        if v is None:
            herr += 1
            ctx.count("harness-error")
            continue
        ctx.traces_validated += 1
        for msg, sig, idx in v:
            key = json.dumps(sig, sort_keys=True)
            seen[key] = seen.get(key, 0) + 1
            if seen[key] > 1:
                continue
            small = shrink(ctx, binary, sc, sig) if not ctx.replay else sc
            sout = run_go(ctx, binary, [small], workers=1)[0]
            v2 = [x for x in (oracle(small, sout) or []) if x[1] == sig]
            if not v2:
                small, sout, v2 = sc, out, [(msg, sig, idx)]
            ctx.violation("property", v2[0][0], signature=sig,
                          replay={"ops": [l for l in small if not l.startswith("#")] + ["#final"] * (1 if "#final" in small else 0),
                                  "impl": sout})
        for a, b, l in zip(out, mout + ["<missing>"] * len(out), sc):
            if a == "#" or a.startswith("harness-error") or a == "<missing>":
                continue
            a2 = a.replace(":!nobase", ":!apply").replace(":!]", ":!apply]").replace(":! ", ":!apply ")
            if ":D:!apply" in b:
                # the abstract codec only knows that a patch against another base *may* fail; whether the real
                # fossil patch happens to apply depends on the bytes: compare such pushes up to the result
                import re as _re
                a2 = _re.sub(r":D:[^\s\]]+", ":D:*", a2)
                b = _re.sub(r":D:[^\s\]]+", ":D:*", b)
            if a2 != b:
                ndiff += 1
                if ndiff <= 3:
                    ctx.violation("correspondence", f"model and implementation differ on `{l}`: impl `{a}` model `{b}`",
                                  signature={"kind": "diff", "op": l.split()[0]},
                                  replay={"ops": [x for x in sc if not x.startswith("#")], "impl": out, "model": mout,
                                          "correspondence": "Drivers/C25.lean (Model/Keyed.lean) vs applyRefreshResponse / keyedWritePublication"},
                                  no_input=not [x for x in ctx.violations if x["kind"] == "property"])
                break
    ctx.extra["harness_errors_dropped"] = herr
    ctx.extra["disagreements"] = ndiff
    if herr > len(scs) // 10:
        ctx.notes.append(f"{herr} scenarios dropped as harness errors")
    if not proofs_ok:
        ctx.proof_broken()
