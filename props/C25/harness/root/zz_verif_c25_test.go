//go:build verif

package centrifuge

// Verification harness for C25 (injected with `go test -overlay`; never part of the repo).
//
// A scenario is a `reset` line followed by op lines; one canonical output line per line.
// Real Node with shared poll configured, real Clients over a recording JSON transport, inside a
// testing/synctest bubble.  The OnSharedPoll handler always fails, so timer/notified refresh cycles are
// inert and poll responses are injected by calling the real applyRefreshResponse directly (`resp`),
// which is how stale / in-flight responses racing with SharedPollPublish are expressed sequentially.
//
//   reset mode=v|l keep=0|1 shut=0|1            versioned / versionless, KeepLatestData, immediate channel shutdown
//   sub c delta=0|1                             connection c subscribes (fossil delta negotiated or not)
//   trk c k v                                   connection c tracks key k holding version v
//   utk c k                                     untrack
//   resp ep k:v:d[:p] …  | k:x                   applyRefreshResponse(ep, items) (d data id, p prev-data id or -)
//   pub k v ep d                                 SharedPollPublish
//   rvk k                                        SharedPollRevokeKeys(all users)
//   unsub c | close c
//   bgpub k v ep d                               SharedPollPublish whose delivery parks inside keyedWritePublication (phase 1 done)
//   rel                                          the parked delivery resumes (phase 3)
//   trkd c k v | tcb                             track with the OnTrack verdict deferred | the oldest verdict arrives
// Output: per connection the frames written since the previous line:
//   c1[R:k=v:F:d …  k=v:F:d  k=v:D:d|!  k=x  unsub:code  disc:code] …  st=k:ver:nb:dataid,…   (manager entries)
// For a delta push the harness applies the real fossil patch to the bytes that connection holds for the key
// and prints the id of the resulting payload ("!" when the patch does not apply or yields unknown bytes).

import (
	"bufio"
	"context"
	"encoding/json"
	"errors"
	"fmt"
	"os"
	"sort"
	"strconv"
	"strings"
	"sync"
	"testing"
	"testing/synctest"
	"time"

	"github.com/centrifugal/protocol"
	fdelta "github.com/shadowspore/fossil-delta"
)

const verifC25Ch = "sp"

type verifC25Transport struct {
	mu     sync.Mutex
	frames []string
	closed bool
	disc   *Disconnect
}

func (t *verifC25Transport) Name() string                     { return "verif" }
func (t *verifC25Transport) AcceptProtocol() string           { return "" }
func (t *verifC25Transport) Protocol() ProtocolType           { return ProtocolTypeJSON }
func (t *verifC25Transport) ProtocolVersion() ProtocolVersion { return ProtocolVersion2 }
func (t *verifC25Transport) Unidirectional() bool             { return false }
func (t *verifC25Transport) Emulation() bool                  { return false }
func (t *verifC25Transport) DisabledPushFlags() uint64        { return 0 }
func (t *verifC25Transport) PingPongConfig() PingPongConfig {
	return PingPongConfig{PingInterval: 100 * time.Hour, PongTimeout: time.Hour}
}
func (t *verifC25Transport) add(b []byte) {
	for _, l := range strings.Split(string(b), "\n") {
		if strings.TrimSpace(l) != "" {
			t.frames = append(t.frames, l)
		}
	}
}
func (t *verifC25Transport) Write(b []byte) error {
	t.mu.Lock()
	t.add(b)
	t.mu.Unlock()
	return nil
}
func (t *verifC25Transport) WriteMany(bs ...[]byte) error {
	t.mu.Lock()
	for _, b := range bs {
		t.add(b)
	}
	t.mu.Unlock()
	return nil
}
func (t *verifC25Transport) Close(d Disconnect) error {
	t.mu.Lock()
	t.closed = true
	dd := d
	t.disc = &dd
	t.mu.Unlock()
	return nil
}

// payload for data id d (family letter + digits): ids of one family share a long block, so fossil patches
// inside a family are smaller than the payload ("real" deltas) and depend on the base; across families the
// patch is at least as long as the payload and the server falls back to the full payload.
func verifC25Data(id string) []byte {
	if id == "" || id == "-" {
		return nil
	}
	return []byte(`{"pad":"` + strings.Repeat(id[:1]+"0123456789", 12) + `","id":"` + id + `"}`)
}

func verifC25ID(b []byte) string {
	var d struct {
		Pad string `json:"pad"`
		ID  string `json:"id"`
	}
	if json.Unmarshal(b, &d) != nil || d.ID == "" || string(verifC25Data(d.ID)) != string(b) {
		return "!"
	}
	return d.ID
}

type verifC25Conn struct {
	client  *Client
	closeFn ClientCloseFunc
	tr      *verifC25Transport
	cursor  int
	delta   bool
	held    map[string][]byte
	cmdID   uint32
	discOut bool
}

type verifC25PubJSON struct {
	Key     string          `json:"key"`
	Data    json.RawMessage `json:"data"`
	Version uint64          `json:"version"`
	Removed bool            `json:"removed"`
	Delta   bool            `json:"delta"`
}

type verifC25Frame struct {
	ID    uint32 `json:"id"`
	Error *struct {
		Code uint32 `json:"code"`
	} `json:"error"`
	Subscribe *struct {
		Delta bool   `json:"delta"`
		Epoch string `json:"epoch"`
	} `json:"subscribe"`
	SubRefresh *struct {
		Items []verifC25PubJSON `json:"items"`
	} `json:"sub_refresh"`
	Push *struct {
		Channel     string           `json:"channel"`
		Pub         *verifC25PubJSON `json:"pub"`
		Unsubscribe *struct {
			Code uint32 `json:"code"`
		} `json:"unsubscribe"`
	} `json:"push"`
}

type verifC25Scn struct {
	node   *Node
	conns  map[string]*verifC25Conn
	order  []string
	closed []*verifC25Conn
	// gate inside keyedWritePublication (GetChannelBatchConfig runs between its optimistic check and the
	// re-check under c.mu): when armed, the first call parks until released
	armed    bool
	parked   bool
	gateCh   chan struct{}
	bgDone   chan struct{}
	// asynchronous OnTrack: verdict callbacks kept until `tcb`
	deferTrack bool
	trackCbs   []TrackCallback
	trackDrop  []func()
}

// payload bytes of a publication as the SDK would see them: on delta channels (JSON) the data is a JSON string.
func verifC25Raw(c *verifC25Conn, raw json.RawMessage) []byte {
	if len(raw) > 0 && raw[0] == '"' {
		var s string
		if json.Unmarshal(raw, &s) == nil {
			return []byte(s)
		}
	}
	return []byte(raw)
}

func (s *verifC25Scn) drain(c *verifC25Conn) string {
	c.tr.mu.Lock()
	frames := append([]string(nil), c.tr.frames[c.cursor:]...)
	c.cursor = len(c.tr.frames)
	closed, disc := c.tr.closed, c.tr.disc
	c.tr.mu.Unlock()
	var out []string
	one := func(p verifC25PubJSON, prefix string) {
		if p.Removed {
			delete(c.held, p.Key)
			out = append(out, fmt.Sprintf("%s%s=x", prefix, p.Key))
			return
		}
		b := verifC25Raw(c, p.Data)
		kind := "F"
		if !c.delta && len(p.Data) > 0 && p.Data[0] == '"' {
			// a subscription that did not negotiate delta must get the payload as is, not JSON-string-escaped
			out = append(out, fmt.Sprintf("%s%s=%d:F:!escaped", prefix, p.Key, p.Version))
			return
		}
		if p.Delta {
			kind = "D"
			base, ok := c.held[p.Key]
			if !ok {
				out = append(out, fmt.Sprintf("%s%s=%d:D:!nobase", prefix, p.Key, p.Version))
				return
			}
			res, err := fdelta.Apply(base, b)
			if err != nil {
				out = append(out, fmt.Sprintf("%s%s=%d:D:!apply", prefix, p.Key, p.Version))
				return
			}
			b = res
		}
		c.held[p.Key] = b
		out = append(out, fmt.Sprintf("%s%s=%d:%s:%s", prefix, p.Key, p.Version, kind, verifC25ID(b)))
	}
	for _, f := range frames {
		var x verifC25Frame
		if json.Unmarshal([]byte(f), &x) != nil {
			out = append(out, "?")
			continue
		}
		if x.Error != nil {
			out = append(out, fmt.Sprintf("err:%d", x.Error.Code))
		}
		if x.SubRefresh != nil {
			for _, p := range x.SubRefresh.Items {
				one(p, "R:")
			}
		}
		if x.Push != nil && x.Push.Pub != nil {
			one(*x.Push.Pub, "")
		}
		if x.Push != nil && x.Push.Unsubscribe != nil {
			out = append(out, fmt.Sprintf("unsub:%d", x.Push.Unsubscribe.Code))
			c.held = map[string][]byte{}
		}
	}
	if closed && !c.discOut {
		c.discOut = true
		code := uint32(0)
		if disc != nil {
			code = disc.Code
		}
		out = append(out, fmt.Sprintf("disc:%d", code))
	}
	return strings.Join(out, " ")
}

func (s *verifC25Scn) state() string {
	m := s.node.sharedPollManager
	m.mu.RLock()
	st, ok := m.channels[verifC25Ch]
	m.mu.RUnlock()
	if !ok {
		return "st=none"
	}
	st.mu.Lock()
	defer st.mu.Unlock()
	var ks []string
	for k := range st.itemIndex {
		ks = append(ks, k)
	}
	sort.Strings(ks)
	var out []string
	for _, k := range ks {
		e := st.itemIndex[k]
		d := "-"
		if e.data != nil {
			d = verifC25ID(e.data)
		}
		nb := 0
		if e.needsBroadcast {
			nb = 1
		}
		out = append(out, fmt.Sprintf("%s:%d:%d:%s", k, e.version, nb, d))
	}
	if len(out) == 0 {
		return "st=-"
	}
	return "st=" + strings.Join(out, ",")
}

func (s *verifC25Scn) obs() string {
	time.Sleep(time.Millisecond)
	synctest.Wait()
	var parts []string
	for _, name := range s.order {
		c := s.conns[name]
		d := s.drain(c)
		if d != "" {
			parts = append(parts, name+"["+d+"]")
		}
	}
	parts = append(parts, s.state())
	return strings.Join(parts, " ")
}

func (s *verifC25Scn) conn(name string) *verifC25Conn {
	if c, ok := s.conns[name]; ok {
		return c
	}
	tr := &verifC25Transport{}
	client, closeFn, err := NewClient(context.Background(), s.node, tr)
	if err != nil {
		return nil
	}
	c := &verifC25Conn{client: client, closeFn: closeFn, tr: tr, held: map[string][]byte{}, cmdID: 1}
	client.HandleCommand(&protocol.Command{Id: 1, Connect: &protocol.ConnectRequest{}}, 0)
	synctest.Wait()
	tr.mu.Lock()
	c.cursor = len(tr.frames)
	tr.mu.Unlock()
	s.conns[name] = c
	s.order = append(s.order, name)
	sort.Strings(s.order)
	return c
}

func (s *verifC25Scn) op(f []string) (res string) {
	defer func() {
		if r := recover(); r != nil {
			res = fmt.Sprintf("PANIC %v", r)
		}
	}()
	if len(f) == 0 {
		return "bad-op"
	}
	switch f[0] {
	case "sub":
		if len(f) != 3 {
			return "bad-op"
		}
		c := s.conn(f[1])
		if c == nil {
			return "harness-error conn"
		}
		req := &protocol.SubscribeRequest{Channel: verifC25Ch, Type: int32(SubscriptionTypeSharedPoll)}
		c.delta = f[2] == "delta=1"
		if c.delta {
			req.Delta = "fossil"
		}
		c.cmdID++
		c.client.HandleCommand(&protocol.Command{Id: c.cmdID, Subscribe: req}, 0)
	case "trk":
		if len(f) != 4 {
			return "bad-op"
		}
		c, ok := s.conns[f[1]]
		v, err := strconv.ParseUint(f[3], 10, 64)
		if !ok || err != nil {
			return "bad-op"
		}
		if v == 0 {
			delete(c.held, f[2])
		}
		c.cmdID++
		c.client.HandleCommand(&protocol.Command{Id: c.cmdID, SubRefresh: &protocol.SubRefreshRequest{Channel: verifC25Ch, Type: typeTrack,
			Track: []*protocol.TrackBatch{{Items: []*protocol.KeyedItem{{Key: f[2], Version: v}}}}}}, 0)
	case "utk":
		if len(f) != 3 {
			return "bad-op"
		}
		c, ok := s.conns[f[1]]
		if !ok {
			return "bad-op"
		}
		c.cmdID++
		c.client.HandleCommand(&protocol.Command{Id: c.cmdID, SubRefresh: &protocol.SubRefreshRequest{Channel: verifC25Ch, Type: typeUntrack, Untrack: []string{f[2]}}}, 0)
	case "unsub":
		c, ok := s.conns[f[1]]
		if !ok {
			return "bad-op"
		}
		c.cmdID++
		c.client.HandleCommand(&protocol.Command{Id: c.cmdID, Unsubscribe: &protocol.UnsubscribeRequest{Channel: verifC25Ch}}, 0)
		c.held = map[string][]byte{}
	case "close":
		c, ok := s.conns[f[1]]
		if !ok {
			return "bad-op"
		}
		_ = c.closeFn()
		// the connection is gone: a later `sub` with this name is a new connection
		time.Sleep(time.Millisecond)
		synctest.Wait()
		o := s.drain(c)
		delete(s.conns, f[1])
		var order []string
		for _, n := range s.order {
			if n != f[1] {
				order = append(order, n)
			}
		}
		s.order = order
		s.closed = append(s.closed, c)
		rest := s.obs()
		if o != "" {
			return f[1] + "[" + o + "] " + rest
		}
		return rest
	case "resp":
		if len(f) < 2 {
			return "bad-op"
		}
		ep := f[1]
		if ep == "-" {
			ep = ""
		}
		var items []SharedPollRefreshItem
		for _, w := range f[2:] {
			p := strings.Split(w, ":")
			if len(p) == 2 && p[1] == "x" {
				items = append(items, SharedPollRefreshItem{Key: p[0], Removed: true})
				continue
			}
			if len(p) < 3 {
				return "bad-op"
			}
			v, err := strconv.ParseUint(p[1], 10, 64)
			if err != nil {
				return "bad-op"
			}
			it := SharedPollRefreshItem{Key: p[0], Version: v, Data: verifC25Data(p[2])}
			if len(p) > 3 {
				it.PrevData = verifC25Data(p[3])
			}
			items = append(items, it)
		}
		m := s.node.sharedPollManager
		m.mu.RLock()
		st, ok := m.channels[verifC25Ch]
		m.mu.RUnlock()
		hub := s.node.keyedManager.getHub(verifC25Ch)
		if !ok || hub == nil {
			return "nochan " + s.obs()
		}
		st.applyRefreshResponse(verifC25Ch, ep, items, hub, s.node, "timer")
	case "pub":
		if len(f) != 5 {
			return "bad-op"
		}
		v, err := strconv.ParseUint(f[2], 10, 64)
		if err != nil {
			return "bad-op"
		}
		ep := f[3]
		if ep == "-" {
			ep = ""
		}
		if err := s.node.SharedPollPublish(context.Background(), verifC25Ch, f[1], v, ep, verifC25Data(f[4])); err != nil {
			return "err " + s.obs()
		}
	case "rvk":
		if len(f) != 2 {
			return "bad-op"
		}
		s.node.sharedPollManager.SharedPollRevokeKeys(verifC25Ch, []string{f[1]}, nil, nil)
	case "bgpub":
		// SharedPollPublish on its own goroutine; the delivery to the key's only subscriber parks between
		// phase 1 and phase 3 of keyedWritePublication until `rel`
		if len(f) != 5 || s.parked {
			return "bad-op"
		}
		if s.node.config.SharedPoll.GetSharedPollChannelOptions != nil {
			if o, _ := s.node.config.SharedPoll.GetSharedPollChannelOptions(verifC25Ch); o.isVersionless() {
				return "bad-op"
			}
		}
		v, err := strconv.ParseUint(f[2], 10, 64)
		if err != nil {
			return "bad-op"
		}
		if hub := s.node.keyedManager.getHub(verifC25Ch); hub != nil && hub.subscriberCount(f[1]) > 1 {
			return "bad-op"
		}
		ep := f[3]
		if ep == "-" {
			ep = ""
		}
		s.armed, s.gateCh, s.bgDone = true, make(chan struct{}), make(chan struct{})
		done := s.bgDone
		go func() {
			defer close(done)
			_ = s.node.SharedPollPublish(context.Background(), verifC25Ch, f[1], v, ep, verifC25Data(f[4]))
		}()
		synctest.Wait()
		s.armed = false
	case "rel":
		if s.parked {
			close(s.gateCh)
			<-s.bgDone
			s.parked = false
		}
	case "trkd":
		if len(f) != 4 {
			return "bad-op"
		}
		c, ok := s.conns[f[1]]
		v, err := strconv.ParseUint(f[3], 10, 64)
		if !ok || err != nil {
			return "bad-op"
		}
		// the SDK gives up the bytes it holds (version 0) only when the track takes effect
		if v == 0 {
			s.trackDrop = append(s.trackDrop, func() { delete(c.held, f[2]) })
		} else {
			s.trackDrop = append(s.trackDrop, func() {})
		}
		c.cmdID++
		s.deferTrack = true
		c.client.HandleCommand(&protocol.Command{Id: c.cmdID, SubRefresh: &protocol.SubRefreshRequest{Channel: verifC25Ch, Type: typeTrack,
			Track: []*protocol.TrackBatch{{Items: []*protocol.KeyedItem{{Key: f[2], Version: v}}}}}}, 0)
		s.deferTrack = false
	case "tcb":
		if len(s.trackCbs) == 0 {
			return "bad-op"
		}
		cb := s.trackCbs[0]
		s.trackCbs = s.trackCbs[1:]
		if len(s.trackDrop) > 0 {
			s.trackDrop[0]()
			s.trackDrop = s.trackDrop[1:]
		}
		cb(TrackReply{}, nil)
	default:
		return "bad-op"
	}
	return s.obs()
}

func verifC25RunScenario(t *testing.T, lines []string) (out []string) {
	defer func() {
		if r := recover(); r != nil {
			for len(out) < len(lines) {
				out = append(out, fmt.Sprintf("PANIC %v", r))
			}
		}
	}()
	kv := map[string]string{}
	for _, w := range strings.Fields(lines[0])[1:] {
		if i := strings.IndexByte(w, '='); i > 0 {
			kv[w[:i]] = w[i+1:]
		}
	}
	synctest.Test(t, func(t *testing.T) {
		mode := SharedPollModeVersioned
		if kv["mode"] == "l" {
			mode = SharedPollModeVersionless
		}
		opts := SharedPollChannelOptions{Mode: mode, RefreshInterval: 1000 * time.Hour, RefreshBatchSize: 100, MaxKeysPerConnection: 100,
			KeepLatestData: kv["keep"] == "1", ChannelShutdownDelay: 1000 * time.Hour}
		if kv["shut"] == "1" {
			opts.ChannelShutdownDelay = -1 // the channel state and keyed hub go as soon as the last key goes
		}
		s := &verifC25Scn{conns: map[string]*verifC25Conn{}}
		node, err := New(Config{LogLevel: LogLevelNone, SharedPoll: SharedPollConfig{
			GetSharedPollChannelOptions: func(string) (SharedPollChannelOptions, bool) { return opts, true }},
			GetChannelBatchConfig: func(string) ChannelBatchConfig {
				if s.armed {
					s.armed = false
					s.parked = true
					<-s.gateCh
				}
				return ChannelBatchConfig{}
			}})
		if err != nil {
			out = append(out, "harness-error new-node")
			return
		}
		node.OnSharedPoll(func(ctx context.Context, e SharedPollEvent) (SharedPollResult, error) {
			return SharedPollResult{}, errors.New("verif: backend polls are injected with resp")
		})
		node.OnConnecting(func(ctx context.Context, e ConnectEvent) (ConnectReply, error) {
			return ConnectReply{Credentials: &Credentials{UserID: "u"}}, nil
		})
		node.OnConnect(func(c *Client) {
			c.OnSubscribe(func(e SubscribeEvent, cb SubscribeCallback) {
				cb(SubscribeReply{Options: SubscribeOptions{AllowedDeltaTypes: []DeltaType{DeltaTypeFossil}}}, nil)
			})
			c.OnTrack(func(e TrackEvent, cb TrackCallback) {
				if s.deferTrack {
					s.deferTrack = false
					s.trackCbs = append(s.trackCbs, cb)
					return
				}
				cb(TrackReply{}, nil)
			})
			c.OnSubRefresh(func(e SubRefreshEvent, cb SubRefreshCallback) { cb(SubRefreshReply{}, nil) })
		})
		if err := node.Run(); err != nil {
			out = append(out, "harness-error run")
			return
		}
		s.node = node
		out = append(out, "ok")
		for _, l := range lines[1:] {
			out = append(out, s.op(strings.Fields(l)))
		}
		if s.parked {
			close(s.gateCh)
			<-s.bgDone
			s.parked = false
		}
		for _, cb := range s.trackCbs {
			cb(TrackReply{}, nil)
		}
		s.trackCbs = nil
		for _, name := range s.order {
			_ = s.conns[name].closeFn()
		}
		for _, c := range s.closed {
			_ = c.closeFn()
		}
		time.Sleep(5 * time.Second)
		synctest.Wait()
		_ = node.Shutdown(context.Background())
		synctest.Wait()
	})
	return out
}

func TestVerifC25(t *testing.T) {
	in, err := os.Open(os.Getenv("VERIF_OPS"))
	if err != nil {
		t.Skip("no VERIF_OPS")
	}
	defer in.Close()
	outf, err := os.Create(os.Getenv("VERIF_OUT"))
	if err != nil {
		t.Fatal(err)
	}
	defer outf.Close()
	w := bufio.NewWriter(outf)
	defer w.Flush()
	sc := bufio.NewScanner(in)
	sc.Buffer(make([]byte, 1<<20), 1<<26)
	var cur []string
	flush := func() {
		if len(cur) == 0 {
			return
		}
		res := verifC25RunScenario(t, cur)
		for i := range cur {
			if i < len(res) {
				fmt.Fprintln(w, res[i])
			} else {
				fmt.Fprintln(w, "<missing>")
			}
		}
		w.Flush()
		cur = nil
	}
	for sc.Scan() {
		line := strings.TrimSpace(sc.Text())
		if line == "" || strings.HasPrefix(line, "#") {
			continue
		}
		if strings.HasPrefix(line, "reset") {
			flush()
		}
		if len(cur) == 0 && !strings.HasPrefix(line, "reset") {
			fmt.Fprintln(w, "bad-op")
			continue
		}
		cur = append(cur, line)
	}
	flush()
}
